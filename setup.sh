#!/bin/bash
# setup_cmd: builds the native shims into build/, makes sure /repo's extension modules are importable
# and not older than their generated C. Idempotent; offline.
set -e
cd "$(dirname "$0")"
QUIET=0; [ "$1" = "--quiet" ] && QUIET=1
say() { [ $QUIET = 1 ] || echo "[setup] $*"; }
REPO="${GAMBIT_VERIF_REPO:-/repo}"
PY=/venv/bin/python
mkdir -p build

# 1. native shims
for shim in gompsim pwkill; do
	src=native/$shim.c
	[ -f "$src" ] || continue
	if [ ! -f build/$shim.so ] || [ "$src" -nt build/$shim.so ]; then
		say "building build/$shim.so"
		gcc -O2 -g -fPIC -shared -fopenmp -o build/$shim.so.tmp "$src" -ldl -lpthread
		mv build/$shim.so.tmp build/$shim.so
	fi
done

# 2. extension modules of the tree under test: rebuild *.so from generated *.c when stale or missing
CY="$REPO/src/gambit/_cython"
INC=$($PY -c 'import sysconfig; print(sysconfig.get_paths()["include"])')
NPINC=$($PY -c 'import numpy; print(numpy.get_include())')
SUF=$($PY -c 'import sysconfig; print(sysconfig.get_config_var("EXT_SUFFIX"))')
for m in kmers metric threads; do
	so="$CY/$m$SUF"; c="$CY/$m.c"; pyx="$CY/$m.pyx"
	if [ -f "$c" ] && { [ ! -f "$so" ] || [ "$c" -nt "$so" ]; }; then
		say "rebuilding $so from $c"
		gcc -O2 -fPIC -shared -fopenmp -fwrapv -fno-strict-aliasing -I"$INC" -I"$NPINC" -o "$so.tmp" "$c" && mv "$so.tmp" "$so"
	fi
	if [ -f "$pyx" ] && [ -f "$c" ] && [ "$pyx" -nt "$c" ]; then
		echo "[setup] NOTICE: $pyx is newer than $c; no Cython in this sandbox, the change is invisible to every check"
	fi
	if [ ! -f "$so" ]; then
		echo "[setup] ERROR: $so missing and cannot be built (no $c)"; exit 1
	fi
done

# 3. python deps (hypothesis is not needed; everything else is in /venv already)
GAMBIT_VERIF_REPO="$REPO" $PY - <<'PYEOF'
import os, sys
sys.path.insert(0, os.path.join(os.environ['GAMBIT_VERIF_REPO'], 'src'))
import gambit, gambit._cython.metric, gambit._cython.kmers, gambit._cython.threads
import numpy, h5py, sqlalchemy, Bio, scipy, click
PYEOF
say "ok"
