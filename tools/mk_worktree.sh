#!/bin/bash
# tools/mk_worktree.sh <name>: scratch git worktree of /repo at /tmp/gw-<name> with the prebuilt extension modules copied in
set -e
d=/tmp/${2:-gw}-$1
git -C /repo worktree remove --force "$d" 2>/dev/null || true
rm -rf "$d"
git -C /repo worktree add --detach "$d" HEAD >/dev/null 2>&1
cp /repo/src/gambit/_cython/*.so /repo/src/gambit/_cython/*.c "$d/src/gambit/_cython/"
echo "$d"
