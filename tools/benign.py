#!/usr/bin/env python3
"""False-alarm test: property-preserving refactorings (benign/B<k>/patch.diff, written by an independent sub-agent that
was given the nine property texts and asked for re-implementations that keep all of them true) must pass the checks.

  tools/benign.py B<k> PROP [PROP ...]     -> scratch copy of /repo/src + patch, ./check PROP quick with GAMBIT_VERIF_REPO
"""
import json
import os
import shutil
import subprocess
import sys
import time

VERIF = os.path.dirname(os.path.dirname(os.path.abspath(__file__)))


def main(bid, props):
	d = f'/var/tmp/gvsim-benign-{bid}'
	shutil.rmtree(d, ignore_errors=True)
	os.makedirs(d)
	shutil.copytree('/repo/src', os.path.join(d, 'src'), ignore=shutil.ignore_patterns('__pycache__', '*.egg-info'))
	ap = subprocess.run(['patch', '-p1', '-s', '-d', d, '-i', os.path.join(VERIF, 'benign', bid, 'patch.diff')], capture_output=True, text=True)
	if ap.returncode != 0:
		print(bid, 'patch does not apply', ap.stdout[-300:])
		return
	save = f'/var/tmp/gvsim-evsave-{os.getpid()}'
	shutil.rmtree(save, ignore_errors=True)
	os.makedirs(save)
	for x in ('evidence', 'replays'):
		if os.path.isdir(os.path.join(VERIF, x)):
			shutil.copytree(os.path.join(VERIF, x), os.path.join(save, x))
	meta_path = os.path.join(VERIF, 'benign', bid, 'meta.json')
	meta = json.load(open(meta_path)) if os.path.exists(meta_path) else dict(id=bid, checks={})
	try:
		for prop in props:
			t0 = time.time()
			r = subprocess.run([os.path.join(VERIF, 'check'), prop, 'quick'], cwd=VERIF, env=dict(os.environ, GAMBIT_VERIF_REPO=d), capture_output=True, text=True)
			lines = [l for l in r.stdout.splitlines() if l.startswith('VIOLATION') or l.startswith('  C') or l.startswith('HARNESS')]
			meta['checks'][prop] = dict(exit=r.returncode, alarm=r.returncode != 0, lines=lines[:6], wall_s=round(time.time() - t0))
			print(bid, prop, 'exit', r.returncode, lines[:3], flush=True)
			if r.returncode != 0:
				# keep the replay for triage
				for f in os.listdir(os.path.join(VERIF, 'replays')):
					if f.startswith(prop + '-'):
						shutil.copy(os.path.join(VERIF, 'replays', f), os.path.join(VERIF, 'benign', bid, f))
	finally:
		for x in ('evidence', 'replays'):
			shutil.rmtree(os.path.join(VERIF, x), ignore_errors=True)
			if os.path.isdir(os.path.join(save, x)):
				shutil.copytree(os.path.join(save, x), os.path.join(VERIF, x))
		shutil.rmtree(save, ignore_errors=True)
		shutil.rmtree(d, ignore_errors=True)
	json.dump(meta, open(meta_path, 'w'), indent=1)


if __name__ == '__main__':
	main(sys.argv[1], sys.argv[2:])
