#!/usr/bin/env python3
"""Regenerates /verif/MANIFEST.json from the table below and validates it (python3-vt has jsonschema)."""
import json
import os
import sys

VERIF = os.path.dirname(os.path.dirname(os.path.abspath(__file__)))

CHECKS = {
	'C13': dict(
		category='exploration', design_ref='DESIGN.md 4.1',
		technique='deterministic simulation: seeded completion-order scheduler over a simulated concurrent.futures pool (atomic task bodies, or real threads pre-empted at line events), read/pool faults (EIO, worker death, interrupt, owner cancels queue, deferred done-callbacks), exhaustive permutation arm for n<=5/6',
		text='Seeded search over task completion orders, worker counts, concurrency modes and read/pool faults of the real calc_file_signatures '
		     'running on a simulated executor; for small file counts every completion permutation is enumerated with an unreadable file at every position. '
		     'Oracle is the single-file function run alone plus inputs that are unreadable by construction. Thread-pool task bodies are interleaved at line granularity in 40% of the thread executions; inputs include named pipes, paths through symlinked directories with .., relative paths, and rare batches of 500-1000 files. A clean batch is evidence over the sampled schedules (plus a complete enumeration for n<=5/6), not a proof.',
		note='Trusts: the simulated pool follows concurrent.futures semantics (checked against the real pools by the fidelity self-test); task bodies run atomically at completion; '
		     'native k-mer code as built from the generated C in /repo (no Cython in the sandbox).'),
}

CHECKS['C05'] = dict(
	category='exploration', design_ref='DESIGN.md 4.2',
	technique='deterministic simulation: seeded OpenMP dynamic hand-out (LD_PRELOAD shim replacing the libgomp dispenser), swarm over team size, chunking, containers (incl. mixed-width lists, file-backed with one-shot read faults), index selections, query subsets and output buffers',
	text='Seeded search over OpenMP team sizes (1..16), thread-to-iteration assignments and execution orders of the real compiled kernel, combined with drawn chunk sizes, '
	     'reference containers (in-memory, list, plain list, HDF5 file with each filter), 6x6 dtype pairs, index selections with repeats and caller-supplied/poisoned/strided buffers; '
	     'every cell is compared as a 32-bit pattern with the two-signature function. Sampling, not proof.',
	note='Trusts: the shim hands out iterations one at a time, so pre-emption points are iteration boundaries only (races inside one native iteration body are out of reach without Cython); '
	     'libgomp team creation/barrier are real; the two-signature function is the reference.')

CLI_NOTE = ('Trusts: simulated pool and OpenMP dispenser stand-ins (fidelity self-test compares them with the real pool and libgomp); commands run in-process through '
            'gambit.cli.cli.main(standalone_mode=False); task bodies atomic; extension modules as built from the generated C.')
CHECKS['C08'] = dict(
	category='exploration', design_ref='DESIGN.md 4.3',
	technique='deterministic simulation of the real query command: seeded pool completion order, OpenMP hand-out, short reads, injected worker death / read errors (fail-or-fully-correct oracle), failing commands as context, chunk/machine-size/left-over-thread/tuning-knob swarm, decoy working directory; per-row reference executions as oracle',
	text='Seeded search over batches, orderings, input channels, formats, -c values, chunk sizes, completion orders of the parsing pool and OpenMP hand-outs of the real query command run in-process in generated worlds; '
	     'every row is compared with the row the same genome produces alone and with an independent label model. Sampling, not proof.',
	note=CLI_NOTE + ' The chunk size reaches the command through the module-level QueryParams name because the CLI exposes no option; a third of the commands use the public API instead.')
CHECKS['C09'] = dict(
	category='exploration', design_ref='DESIGN.md 4.4',
	technique='deterministic simulation with held ambient configuration: three NumPy CPU-dispatch settings x OpenMP team size/hand-out x chunk size x list length on tie-rich databases (exact ties, and distinct distances less than 1e-6 apart), one database object reused across executions with in-memory threshold edits; sort-model invariant checked on every result item',
	text='Every result item of every simulated query execution is checked against the (distance, reference index) sort model, under three NumPy CPU-feature dispatch settings (run groups share one choice sequence), '
	     'drawn thread counts, hand-outs, chunk sizes and list lengths, on generated databases where tied distances are routine; CSV/JSON agreement through the CLI in a tenth of the runs. No fault is injected (the statement names none). Sampling, not proof.',
	note=CLI_NOTE + ' Dispatch settings are limited to what NPY_DISABLE_CPU_FEATURES can switch on this CPU.')
CHECKS['C16'] = dict(
	category='exploration', design_ref='DESIGN.md 4.5',
	technique='deterministic simulation of the real dist command: seeded pool completion order for both sides, OpenMP hand-out, short reads, injected worker death / read errors (fail-or-fully-correct), failing commands as context, tuning-knob swarm, decoy working directory; cell-by-cell oracle from single-file reference executions and a four-decimal rounding model',
	text='Seeded search over the 3 x 5 ways of supplying queries and references, k/p options, -c, completion orders and hand-outs of the real dist command in generated worlds; header, row labels, row order and every cell text are checked, --square also against the twin command. Sampling, not proof.',
	note=CLI_NOTE + ' Parameter mismatches are not generated (C14).')
CHECKS['C17'] = dict(
	category='exploration', design_ref='DESIGN.md 4.6',
	technique='deterministic simulation of the real tree command: seeded pool completion order, OpenMP hand-out, injected worker death / read errors (fail-or-fully-correct), failing commands as context, tuning-knob swarm; independent Newick reader and tie-branching UPGMA reference model',
	text='Seeded search over input channels, label sets with repeats, tied/zero distances, -c, completion orders and hand-outs of the real tree command; the printed tree must be binary, ultrametric, carry exactly the input labels and match some admissible average-linkage clustering of the expected distances. Sampling, not proof.',
	note=CLI_NOTE + ' The clustering arithmetic is a pure function; simulation only decides leaf-to-genome attachment under completion orders.')

CHECKS['C19'] = dict(
	category='fault_enumeration', design_ref='DESIGN.md 4.8',
	technique='crash-point enumeration under simulated process death: SIGKILL at every h5py call boundary and every write-class system call (LD_PRELOAD shim), torn multi-page writes, SIGINT (KeyboardInterrupt) at every boundary and SIGTERM at a drawn subset; real loader as recovery',
	text='For every sampled write (collection, container/write path, compression, payload size, fresh or pre-existing target, library or CLI writer) every h5py call boundary and every write-class system call on the target file is used as a crash point once (SIGKILL), every boundary again with the writer dying from SIGINT (unwinding as Python does) and a drawn subset with SIGTERM, '
	     'plus torn variants of multi-page writes; the survivor is examined by the real loader in a separate process. Crash points per write are enumerated completely; the space of writes is sampled.',
	note='Trusts: a killed process leaves exactly the effects of its completed system calls (page-multiple prefix for a torn write); power-loss reordering/page-cache loss not modelled; '
	     'h5py/libhdf5 as installed; pwkill interposes libc write-class calls reached through the PLT (verified for the h5py wheel).')

CHECKS['C20'] = dict(
	category='exploration', design_ref='DESIGN.md 4.9',
	technique='seeded operation histories on the mutable list-backed collection against a reference list model, with NumPy object-array indexing as selection model; one fault kind (a file-backed read that fails once)',
	text='Claimed for the history half of the quantifier only: seeded sequences of up to 30 list mutations (incl. out-of-range positions, which must raise exactly as a list does) interleaved with observation rounds on the list-backed, the in-memory concatenated and a re-loaded file-backed collection. '
	     'The index-expression half is evaluated only as the observations of those histories - for it the check is a generator with a model, not something simulation decides. No schedule or clock exists for this property; the only faults are a file-backed read failing once (I/O error / KeyboardInterrupt) and the snapshot file being replaced on disk while an earlier view is open.',
	note='Trusts: Python list semantics and NumPy object-array indexing as reference models; IndexError and TypeError are both accepted for ill-typed/out-of-range indices; tuples, 0-d arrays, remove()/index() not generated.')

CHECKS['C18'] = dict(
	category='exploration', design_ref='DESIGN.md 4.7',
	technique='deterministic simulation of operation histories against a database directory: real commands in-process, session abuse, failing commands, KeyboardInterrupt and SIGKILL at the k-th line event, WAL-mode databases, direct DML through the default session, commit attempted on untouched / DML-only sessions, plain-class session makers requested earlier; file hashes, SQL statement monitor and commit behaviour checked after every operation',
	text='Seeded histories of 1-10 (thorough 25) operations - commands, library calls, session abuse on the default session obtained four ways, failing commands, commands interrupted or SIGKILLed at a drawn line event - against a generated database directory; '
	     'after every operation both files must hash to their initial value, no write-class SQL statement may have reached the database, and commit() must have raised. Sampling of histories, not proof.',
	note=CLI_NOTE + ' Interrupt/kill points are Python line events in gambit frames (sys.settrace), not instructions inside NumPy/h5py/SQLite calls; killed commands run in a child forked from a zygote that never ran OpenMP.')

NOT_APPLICABLE = {
	'C01': 'pure function of (k, prefix, sequence bytes, container type, accumulator): no schedule, fault, clock or persistent state can change it; input generation against a second definition is property-based testing, not simulation',
	'C02': 'pure function of two sorted arrays; nothing a simulator decides (order, fault, time) enters',
	'C03': 'pure function of (taxonomy, genome-to-taxon map, distance vector); classify/next_taxon/reportable_taxon touch no I/O, thread or ambient state',
	'C04': 'pure function of the database directory contents; the only ambient source nearby (directory listing order feeding a set that is popped) is irrelevant because the exactly-one check precedes the pop',
	'C06': 'metamorphic equalities over file contents (orientation, order, case, wrapping, line endings, compression); no fault or schedule appears in the statement and short reads cannot reach the parser through BufferedReader',
	'C07': 'pure bijection on byte strings / integers',
	'C10': 'pure function of (forest, matched taxa in encounter order); reference order is an input permutation stored in the signature file, not something that varies between executions (defect seen by reading is recorded in DESIGN.md section 6)',
	'C11': 'pure function of a results object; the clock only supplies a timestamp value that round-trips',
	'C12': 'write-then-read with no fault is a pure function of the collection; its crash dimension is C19, whose fault-free arm exercises the round trip and is reported there',
	'C14': 'every mismatch path is decided from options and file headers before any worker pool or thread team exists; exit status and absence of output are deterministic functions of the command line (defect seen by reading is recorded in DESIGN.md section 6)',
	'C15': 'algebraic laws of a pure function',
}


def main():
	checks = []
	for pid in sorted(CHECKS):
		c = CHECKS[pid]
		checks.append(dict(
			property_id=pid,
			quick_cmd=f'./check {pid} quick',
			thorough_cmd=f'./check {pid} thorough',
			evidence_file=f'/verif/evidence/{pid}.json',
			replay_cmd_template=f'./check {pid} --replay {{path}}',
			engine='gvsim',
			level_claimed=dict(category=c['category'], text=c['text'], design_ref=c['design_ref']),
			level_note=c['note'],
			technique=c['technique'],
		))
	na = dict(NOT_APPLICABLE)
	# anything neither claimed nor listed is listed as not yet built
	props = [json.loads(l)['id'] for l in open(os.path.join(VERIF, 'properties.jsonl')) if l.strip()]
	for pid in props:
		if pid not in CHECKS and pid not in na:
			na[pid] = 'simulation target per DESIGN.md section 2, check not built yet at this commit; not claimed until its determinism and sensitivity gates are green'
	man = dict(
		version=1,
		setup_cmd='./setup.sh',
		hooks=dict(
			guard='GAMBIT_VERIF',
			enable='no source hooks: every seam is held from outside (names under concurrent.futures and gambit.sigs.calc, builtins.open, LD_PRELOAD shims build/gompsim.so and build/pwkill.so, in-process CLI)',
			baseline_off_cmd='cd /repo && /venv/bin/python -m pytest -ra -q -p no:cacheprovider --timeout=900 --continue-on-collection-errors',
			source_commits=[],
			add_only=True,
		),
		engines=[dict(name='gvsim', path='/verif/gvsim', serves_properties=sorted(CHECKS),
		              kind_free_text='deterministic simulator with fault injection: seeded choice sequence, simulated executor, OpenMP hand-out shim, crash-point shims, read-fault seam, in-process command histories; minimiser and replay files')],
		checks=checks,
		notes='VERIF_SEED selects the master seed (default 0). GAMBIT_VERIF_REPO points the checks at another tree (default /repo). See DESIGN.md.',
		not_applicable=[dict(property_id=p, reason=na[p]) for p in sorted(na)],
	)
	path = os.path.join(VERIF, 'MANIFEST.json')
	with open(path, 'w') as f:
		json.dump(man, f, indent=1)
		f.write('\n')
	try:
		import jsonschema
		schema = json.load(open('/root/.vp/MANIFEST.schema.json'))
		jsonschema.validate(man, schema)
		es = json.load(open('/root/.vp/EVIDENCE.schema.json'))
		for pid in CHECKS:
			ep = os.path.join(VERIF, 'evidence', f'{pid}.json')
			if os.path.exists(ep):
				jsonschema.validate(json.load(open(ep)), es)
				print('evidence ok:', pid)
			else:
				print('evidence MISSING:', pid)
		print('manifest ok')
	except ImportError:
		print('jsonschema not available; not validated')


if __name__ == '__main__':
	main()
