#!/usr/bin/env python3
"""Seeded breaking changes: import from a sub-agent's deliver/ directory, verify independently in a
scratch worktree, run our checks against them on /repo (apply, check, revert).

  tools/seeded.py import <agent_worktree> <PROP>        -> seeded/<PROP>-<k>/ (patch.diff, demo.py, notes.md)
  tools/seeded.py verify <id> [...]                      -> applies to a scratch worktree of /repo HEAD, runs the
                                                            test suite (must keep the 542 stable passes) and the demo
                                                            with and without the change; writes meta.json
  tools/seeded.py check <id> [tier] [PROP ...]           -> git -C /repo apply; ./check PROP tier; git -C /repo checkout -- .
"""
import json
import os
import shutil
import subprocess
import sys
import time
import xml.etree.ElementTree as ET

VERIF = os.path.dirname(os.path.dirname(os.path.abspath(__file__)))
SEEDED = os.path.join(VERIF, 'seeded')
PY = '/venv/bin/python'


def sh(cmd, **kw):
	return subprocess.run(cmd, shell=isinstance(cmd, str), capture_output=True, text=True, **kw)


def cmd_import(agent_dir, prop, offset=0):
	d = os.path.join(agent_dir, 'deliver')
	for k in (1, 2, 3, 4):
		p = os.path.join(d, f'change{k}.diff')
		if not os.path.exists(p):
			continue
		out = os.path.join(SEEDED, f'{prop}-{k + offset}')
		os.makedirs(out, exist_ok=True)
		shutil.copy(p, os.path.join(out, 'patch.diff'))
		for src, dst in ((f'demo{k}.py', 'demo.py'), (f'notes{k}.md', 'notes.md')):
			if os.path.exists(os.path.join(d, src)):
				shutil.copy(os.path.join(d, src), os.path.join(out, dst))
		print('imported', out)


def _worktree(name):
	d = f'/tmp/gw-ver-{name}'
	sh(['git', '-C', '/repo', 'worktree', 'remove', '--force', d])
	shutil.rmtree(d, ignore_errors=True)
	r = sh(['git', '-C', '/repo', 'worktree', 'add', '--detach', d, 'HEAD'])
	if r.returncode != 0:
		raise SystemExit(r.stderr)
	for f in os.listdir('/repo/src/gambit/_cython'):
		if f.endswith('.so') or f.endswith('.c'):
			shutil.copy(os.path.join('/repo/src/gambit/_cython', f), os.path.join(d, 'src/gambit/_cython', f))
	# git-ignored generated test data (gzip copies of the query genomes) that the tests create on demand
	ign = sh(['git', '-C', '/repo', 'ls-files', '--others', '--ignored', '--exclude-standard', 'tests/data']).stdout.split('\n')
	for rel in ign:
		if rel and os.path.isfile(os.path.join('/repo', rel)):
			os.makedirs(os.path.dirname(os.path.join(d, rel)), exist_ok=True)
			shutil.copy(os.path.join('/repo', rel), os.path.join(d, rel))
	return d


def _rm_worktree(d):
	sh(['git', '-C', '/repo', 'worktree', 'remove', '--force', d])
	shutil.rmtree(d, ignore_errors=True)


def _run_demo(wt, sid, orig_dir_hint=None):
	os.makedirs(os.path.join(wt, 'deliver'), exist_ok=True)
	src = open(os.path.join(SEEDED, sid, 'demo.py')).read()
	# demos were written inside /tmp/gw-<PROP>; point them at the verification worktree
	prop = sid.split('-')[0]
	src = src.replace(f'/tmp/gw4-r4{prop}', wt).replace(f'/tmp/gw-{prop}', wt).replace(f'/tmp/gw2-{prop}', wt).replace(f'/tmp/gw3-{prop}', wt)
	# data files the sub-agent created next to the test data (untracked in its worktree)
	n = int(sid.split('-')[1]); agent = f'/tmp/gw4-r4{prop}' if n > 9 else f'/tmp/gw3-{prop}' if n > 6 else (f'/tmp/gw2-{prop}' if n > 3 else f'/tmp/gw-{prop}')
	if os.path.isdir(agent):
		others = sh(['git', '-C', agent, 'ls-files', '--others', '--exclude-standard', 'tests']).stdout.split('\n')
		for rel in others:
			if rel and os.path.isfile(os.path.join(agent, rel)) and not os.path.exists(os.path.join(wt, rel)):
				os.makedirs(os.path.dirname(os.path.join(wt, rel)), exist_ok=True)
				shutil.copy(os.path.join(agent, rel), os.path.join(wt, rel))
	demo = os.path.join(wt, 'deliver', 'demo.py')
	open(demo, 'w').write(src)
	env = dict(os.environ, PYTHONPATH=os.path.join(wt, 'src'), PYTHONDONTWRITEBYTECODE='1')
	r = sh([PY, demo], cwd=wt, env=env, timeout=900)
	return r.returncode, (r.stdout + r.stderr)[-1500:]


def cmd_verify(sid):
	meta_path = os.path.join(SEEDED, sid, 'meta.json')
	meta = json.load(open(meta_path)) if os.path.exists(meta_path) else {}
	wt = _worktree(sid)
	try:
		head = sh(['git', '-C', '/repo', 'rev-parse', '--short', 'HEAD']).stdout.strip()
		rc0, out0 = _run_demo(wt, sid)
		ap = sh(['git', '-C', wt, 'apply', '--whitespace=nowarn', os.path.join(SEEDED, sid, 'patch.diff')])
		if ap.returncode != 0:
			ap = sh(['git', '-C', wt, 'apply', '--3way', '--whitespace=nowarn', os.path.join(SEEDED, sid, 'patch.diff')])
		applies = ap.returncode == 0
		res = dict(repo_head=head, applies=applies, demo_clean_exit=rc0)
		if applies:
			junit = f'/tmp/junit-{sid}.xml'
			env = dict(os.environ, PYTHONPATH=os.path.join(wt, 'src'), PYTHONDONTWRITEBYTECODE='1')
			t0 = time.time()
			sh(f'cd {wt} && {PY} -m pytest -q -p no:cacheprovider --timeout=900 --continue-on-collection-errors --junitxml={junit}', env=env, timeout=3600)
			stable = set(json.load(open('/root/.vp/BASELINE.json'))['stable_pass'])
			passed = set()
			for tc in ET.parse(junit).iter('testcase'):
				if not any(ch.tag in ('failure', 'error', 'skipped') for ch in tc):
					passed.add(f"{tc.get('classname')}::{tc.get('name')}")
			os.unlink(junit)
			rc1, out1 = _run_demo(wt, sid)
			res.update(tests_stable_pass_kept=len(stable - passed) == 0, tests_passed=len(passed), stable_missing=sorted(stable - passed)[:5],
			           demo_changed_exit=rc1, demo_changed_tail=out1[-600:], suite_s=round(time.time() - t0))
			res['confirmed'] = bool(rc0 == 0 and rc1 != 0 and res['tests_stable_pass_kept'])
		else:
			res['apply_error'] = ap.stderr[-500:]
			res['confirmed'] = False
		if rc0 != 0:
			res['demo_clean_tail'] = out0[-600:]
		meta.setdefault('id', sid)
		meta.setdefault('property', sid.split('-')[0])
		meta['verification'] = res
		meta['verification_cmds'] = [
			f'git -C /repo worktree add --detach /tmp/gw-ver-{sid} HEAD; copy prebuilt _cython/*.so',
			'PYTHONPATH=<wt>/src /venv/bin/python deliver/demo.py   (clean tree: must exit 0)',
			'git apply patch.diff',
			'PYTHONPATH=<wt>/src /venv/bin/python -m pytest -q -p no:cacheprovider --timeout=900 --continue-on-collection-errors --junitxml=...   (all 542 stable passes of BASELINE.json must still pass)',
			'PYTHONPATH=<wt>/src /venv/bin/python deliver/demo.py   (changed tree: must exit non-zero)',
			'git -C /repo worktree remove --force <wt>',
		]
		json.dump(meta, open(meta_path, 'w'), indent=1)
		print(sid, json.dumps({k: v for k, v in res.items() if k not in ('demo_changed_tail',)}))
	finally:
		_rm_worktree(wt)


def cmd_check_scratch(sid, tier='quick', props=None):
	"""Like cmd_check but against a scratch copy of /repo/src (GAMBIT_VERIF_REPO), leaving /repo untouched -
	used while background runs are reading /repo."""
	meta_path = os.path.join(SEEDED, sid, 'meta.json')
	meta = json.load(open(meta_path)) if os.path.exists(meta_path) else {}
	props = props or [sid.split('-')[0]]
	d = f'/var/tmp/gvsim-seeded-{sid}'
	shutil.rmtree(d, ignore_errors=True)
	os.makedirs(d)
	shutil.copytree('/repo/src', os.path.join(d, 'src'), ignore=shutil.ignore_patterns('__pycache__', '*.egg-info'))
	ap = sh(['patch', '-p1', '-s', '-d', d, '-i', os.path.join(SEEDED, sid, 'patch.diff')])
	if ap.returncode != 0:
		print(sid, 'patch does not apply:', (ap.stdout + ap.stderr)[-300:])
		shutil.rmtree(d, ignore_errors=True)
		return
	save = f'/var/tmp/gvsim-evsave-{os.getpid()}'
	try:
		shutil.rmtree(save, ignore_errors=True)
		os.makedirs(save)
		for x in ('evidence', 'replays'):
			if os.path.isdir(os.path.join(VERIF, x)):
				shutil.copytree(os.path.join(VERIF, x), os.path.join(save, x))
		results = meta.setdefault('checks', {})
		for prop in props:
			t0 = time.time()
			r = sh([os.path.join(VERIF, 'check'), prop, tier], cwd=VERIF, env=dict(os.environ, GAMBIT_VERIF_REPO=d))
			viol = [l for l in r.stdout.splitlines() if l.startswith('VIOLATION') or l.startswith('  C')]
			results[f'{prop}:{tier}'] = dict(exit=r.returncode, detected=r.returncode == 1 and any(l.startswith('VIOLATION') for l in viol),
			                                 lines=viol[:6], wall_s=round(time.time() - t0), how='scratch copy of /repo/src via GAMBIT_VERIF_REPO')
			print(sid, prop, tier, 'exit', r.returncode, viol[:4])
			if r.returncode not in (0, 1):
				print(r.stdout[-1500:])
	finally:
		for x in ('evidence', 'replays'):
			shutil.rmtree(os.path.join(VERIF, x), ignore_errors=True)
			if os.path.isdir(os.path.join(save, x)):
				shutil.copytree(os.path.join(save, x), os.path.join(VERIF, x))
		shutil.rmtree(save, ignore_errors=True)
		shutil.rmtree(d, ignore_errors=True)
	det = [k for k, v in meta.get('checks', {}).items() if v.get('detected')]
	meta['detected_by'] = det
	json.dump(meta, open(meta_path, 'w'), indent=1)


def cmd_check(sid, tier='quick', props=None):
	meta_path = os.path.join(SEEDED, sid, 'meta.json')
	meta = json.load(open(meta_path)) if os.path.exists(meta_path) else {}
	props = props or [sid.split('-')[0]]
	st = sh(['git', '-C', '/repo', 'status', '--porcelain', '--untracked-files=no']).stdout.strip()
	if st:
		raise SystemExit('refusing: /repo has uncommitted changes:\n' + st)
	patch = os.path.join(SEEDED, sid, 'patch.diff')
	ap = sh(['git', '-C', '/repo', 'apply', '--whitespace=nowarn', patch])
	if ap.returncode != 0:
		ap = sh(['git', '-C', '/repo', 'apply', '--3way', '--whitespace=nowarn', patch])
	if ap.returncode != 0:
		print(sid, 'patch does not apply:', ap.stderr[-300:])
		sh(['git', '-C', '/repo', 'reset', '-q', '--hard', 'HEAD'])   # a failed --3way leaves unmerged entries
		return
	try:
		# evidence/replays of the unchanged tree must not be overwritten by a run on a changed tree
		save = f'/var/tmp/gvsim-evsave-{os.getpid()}'
		shutil.rmtree(save, ignore_errors=True)
		os.makedirs(save)
		for d in ('evidence', 'replays'):
			if os.path.isdir(os.path.join(VERIF, d)):
				shutil.copytree(os.path.join(VERIF, d), os.path.join(save, d))
		results = meta.setdefault('checks', {})
		for prop in props:
			t0 = time.time()
			r = sh([os.path.join(VERIF, 'check'), prop, tier], cwd=VERIF)
			viol = [l for l in r.stdout.splitlines() if l.startswith('VIOLATION') or l.startswith('  C')]
			results[f'{prop}:{tier}'] = dict(exit=r.returncode, detected=r.returncode == 1 and any(l.startswith('VIOLATION') for l in viol),
			                                 lines=viol[:6], wall_s=round(time.time() - t0))
			print(sid, prop, tier, 'exit', r.returncode, viol[:4])
			if r.returncode not in (0, 1):
				print(r.stdout[-1500:])
	finally:
		sh(['git', '-C', '/repo', 'checkout', '--', '.'])
		sh(['git', '-C', '/repo', 'reset', '-q'])
		for d in ('evidence', 'replays'):
			shutil.rmtree(os.path.join(VERIF, d), ignore_errors=True)
			if os.path.isdir(os.path.join(save, d)):
				shutil.copytree(os.path.join(save, d), os.path.join(VERIF, d))
		shutil.rmtree(save, ignore_errors=True)
	json.dump(meta, open(meta_path, 'w'), indent=1)


if __name__ == '__main__':
	a = sys.argv[1:]
	if a[0] == 'import':
		cmd_import(a[1], a[2], int(a[3]) if len(a) > 3 else 0)
	elif a[0] == 'verify':
		for sid in a[1:]:
			cmd_verify(sid)
	elif a[0] == 'scheck':
		tier = a[2] if len(a) > 2 and a[2] in ('quick', 'thorough') else 'quick'
		props = [x for x in a[2:] if x not in ('quick', 'thorough')]
		cmd_check_scratch(a[1], tier, props or None)
	elif a[0] == 'check':
		tier = a[2] if len(a) > 2 and a[2] in ('quick', 'thorough') else 'quick'
		props = [x for x in a[2:] if x not in ('quick', 'thorough')]
		cmd_check(a[1], tier, props or None)
