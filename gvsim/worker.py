"""Worker interpreter: executes whole runs, writes one JSON line per run and a summary line.

Started by the launcher as `python /verif/gvsim/_worker_main.py <json-args>` (not `-m`, so that no
module is loaded twice) with the interpreter environment the property needs (LD_PRELOAD shims,
NPY_DISABLE_CPU_FEATURES, PYTHONHASHSEED).
"""
import faulthandler
import json
import os
import shutil
import sys
from collections import Counter


def main(argv=None):
	a1 = (argv or sys.argv)[1]
	if a1.startswith('@'):
		with open(a1[1:]) as f:
			args = json.load(f)
	else:
		args = json.loads(a1)
	repo = os.environ.get('GAMBIT_VERIF_REPO', '/repo')
	src = os.path.join(repo, 'src')
	if src not in sys.path:
		sys.path.insert(0, src)
	faulthandler.enable()
	# seams that must be in place before gambit is imported
	from gvsim.seams import executor as sx
	sx.install()
	from gvsim import engine
	from gvsim import props
	# import-time state of the code under test (defaults captured at import, registries) is fixed here, in the
	# launcher's working directory, and not by whichever run happens to import a module first
	try:
		import importlib
		import pkgutil
		import gambit
		import gambit.cli  # noqa
		# every module of the package: a lazy `from .x import y` inside a function would otherwise execute x's
		# module body - extra line events in gambit frames - in whichever run comes first in a process
		for m in pkgutil.walk_packages(gambit.__path__, 'gambit.'):
			if not m.name.endswith('__main__'):
				try:
					importlib.import_module(m.name)
				except Exception:
					pass
	except Exception:
		pass
	mod = props.get(args['prop'])
	prop, tier, seed = args['prop'], args['tier'], args['seed']
	root = engine.scratch_root()
	out = open(args['out'], 'w')
	per_run_timeout = args.get('run_timeout', 300)
	sample_runs = set(args.get('sample_runs', []))
	agg_keys, agg_states = set(), set()
	if hasattr(mod, 'worker_init'):
		mod.worker_init(args)
	try:
		if args.get('mode') == 'replay':
			faulthandler.dump_traceback_later(per_run_timeout * (3 + len(args.get('prefix') or [])), exit=True)
			for pr in args.get('prefix') or []:
				# earlier runs of the same worker, regenerated from the seed: only the state they leave behind matters
				engine.execute(mod.scenario, prop, seed, pr, tier, root=root, rng_run=pr // getattr(mod, 'RUN_GROUP', 1))
			r = engine.execute(mod.scenario, prop, seed, args['run'], tier, choices=args['choices'], root=root)
			faulthandler.cancel_dump_traceback_later()
			out.write(json.dumps(r.to_json(with_events=True, with_choices=True), default=str) + '\n')
			return 0
		if args.get('mode') == 'minimise':
			faulthandler.dump_traceback_later(per_run_timeout * 8, exit=True)
			best, best_res, n_exec = engine.minimise(mod.scenario, prop, seed, args['run'], tier, args['choices'],
			                                         args['klass'], root=root,
			                                         max_exec=args.get('min_exec', 400), max_s=args.get('min_s', 90))
			faulthandler.cancel_dump_traceback_later()
			rec = dict(run=args['run'], n_exec=n_exec)
			if best_res is not None:
				rec.update(choices=best, events=best_res.events, digest=best_res.digest, violation=best_res.violation.to_json())
			out.write(json.dumps(rec, default=str) + '\n')
			return 0
		for run in args['runs']:
			faulthandler.dump_traceback_later(per_run_timeout, exit=True)
			r = engine.execute(mod.scenario, prop, seed, run, tier, root=root, rng_run=run // getattr(mod, 'RUN_GROUP', 1))
			faulthandler.cancel_dump_traceback_later()
			rec = r.to_json(with_events=(run in sample_runs))
			if r.violation is not None and r.error is None:
				rec['original_len'] = len(r.choices)
			agg_keys |= r.keys
			agg_states |= r.states
			out.write(json.dumps(rec, default=str) + '\n')
			out.flush()
		out.write(json.dumps(dict(summary=True, keys=sorted(agg_keys), states=sorted(agg_states))) + '\n')
		return 0
	finally:
		out.close()
		if hasattr(mod, 'worker_exit'):
			try:
				mod.worker_exit()
			except Exception:
				pass
		shutil.rmtree(root, ignore_errors=True)
