"""Reference-database worlds: a taxonomy forest + genomes written with gambit's own ORM models to
x.gdb, signatures computed by the real code and written with the real dump_signatures to x.gs.

Everything is drawn from random.Random(subseed) (bulk) - the caller logs a hash of the result.
"""
import os
import random

import numpy as np

from . import genomes as G

ID_ATTRS = ('key', 'genbank_acc', 'refseq_acc', 'ncbi_id')
RANKS = ['family', 'genus', 'species', 'subspecies', 'strain']


class RefWorld:
	"""Plain-python description of a generated database (the oracle side never touches the ORM)."""

	def __init__(self):
		self.taxa = []        # dicts: id(int, 1-based = db id), key, name, rank, parent (id or None), threshold, report, ncbi_id
		self.genomes = []     # dicts: id (db id), key, description, organism, taxon (id), ncbi_db, ncbi_id, genbank_acc, refseq_acc, contigs, sig
		self.kspec = None
		self.id_attr = None
		self.sig_order = []   # for each row of the signature file: genome index or None (padding)
		self.sig_ids = []     # stored ids, file order
		self.dir = None
		self.decimal_query = None   # a 10-element set; some references are it minus j elements (distance exactly j/10)
		self.near_query = None      # a 1001-element set; some references sit at two distinct distances from it less than 1e-6 apart
		self.gdb = None
		self.gs = None

	def taxon(self, tid):
		return self.taxa[tid - 1]


def make_taxonomy(rng, n_roots, max_depth, max_taxa):
	taxa = []

	def add(parent, depth):
		tid = len(taxa) + 1
		r = rng.random()
		if r < 0.25:
			thr = None
		else:
			thr = round(rng.choice([0.05, 0.2, 0.4, 0.6, 0.8, 0.95, 1.0, 0.1, 0.3, 0.7]) * rng.choice([1, 1, 1, .9, .5]), 4)
		taxa.append(dict(id=tid, key=f'tax{tid}', name=f'Taxon {tid}' if rng.random() < .8 else f'T"{tid}, x',
		                 rank=RANKS[min(depth, len(RANKS) - 1)] if rng.random() < .9 else None,
		                 parent=parent, threshold=thr, report=rng.random() < 0.8,
		                 ncbi_id=(1000 + tid) if rng.random() < .7 else None))
		if depth + 1 < max_depth:
			for _ in range(rng.choice([0, 1, 2, 2, 3])):
				if len(taxa) < max_taxa:
					add(tid, depth + 1)
	for _ in range(n_roots):
		if len(taxa) < max_taxa:
			add(None, 0)
	return taxa


def build(ctx, rng, kspec, n_genomes, dirname='db', id_attr=None, n_pad=None, ties=False, fast_sigs=False, near_ties=False):
	"""Create the world on disk under ctx.scratch/dirname. Returns RefWorld."""
	from gambit.db.models import Base, Genome, ReferenceGenomeSet, AnnotatedGenome, Taxon
	from gambit.sigs.base import SignatureArray, AnnotatedSignatures, SignaturesMeta, dump_signatures
	from gambit.sigs.calc import calc_signature
	from sqlalchemy import create_engine
	from sqlalchemy.orm import Session

	w = RefWorld()
	w.kspec = kspec
	w.taxa = make_taxonomy(rng, rng.randint(1, 3), rng.randint(1, 5), max_taxa=max(3, n_genomes))
	w.id_attr = id_attr or rng.choice(ID_ATTRS)

	# genomes: families of mutated copies, exact duplicates, unrelated ones
	founders = []
	sig_sets = None
	if fast_sigs:
		# signature level, no sequences: sets over the k-mer index range with duplicates, subsets and
		# equidistant members (same size, disjoint differences) so that tied distances are routine
		from . import sigs as WS
		universe = min(4 ** kspec.k, 2 ** 40)
		sig_sets = WS.make_collection(rng, n_genomes, universe, max_size=60)
		base = WS.random_set(rng, universe, 12)
		dq = WS.random_set(rng, universe, 10)
		if len(dq) == 10:
			w.decimal_query = dq
		for gi in range(n_genomes):
			r = rng.random()
			if r < 0.15 and w.decimal_query is not None:
				# distance to decimal_query exactly j/10 - equal, as float32, to a threshold such as 0.2 that is not
				# float32-representable
				j = rng.randint(1, 9)
				sig_sets[gi] = np.array(sorted(rng.sample(dq.tolist(), 10 - j)), dtype=np.uint64)
			elif r < 0.35:
				# equidistant family: base plus one private element
				extra = rng.randrange(universe)
				sig_sets[gi] = np.union1d(base, np.array([extra], dtype=np.uint64)).astype(np.uint64)
			elif gi > 0 and r < 0.45:
				sig_sets[gi] = sig_sets[rng.randrange(gi)].copy()
	if fast_sigs and near_ties and min(4 ** kspec.k, 2 ** 40) >= 4096 and n_genomes >= 2:
		# distinct distances closer than 1e-6: Jaccard 1000/2001 and 1001/2003 against one 1001-element query (they differ by
		# 2.5e-7, four float32 steps); the order must still be by distance, not by position
		universe = min(4 ** kspec.k, 2 ** 40)
		pool = rng.sample(range(universe), 3003)
		q, xa, xb = pool[:1001], pool[1001:2001], pool[2001:]
		w.near_query = np.array(sorted(q), dtype=np.uint64)
		far = np.array(sorted(q[1:] + xa), dtype=np.uint64)     # 1000 shared of 2001
		near = np.array(sorted(q + xb), dtype=np.uint64)        # 1001 shared of 2003
		slots = rng.sample(range(n_genomes), min(n_genomes, rng.randint(2, 5)))
		for j, gi in enumerate(slots):
			sig_sets[gi] = (far, near)[j % 2].copy() if rng.random() < 0.8 else (near, far)[j % 2].copy()
	for gi in range(n_genomes):
		r = rng.random()
		if fast_sigs:
			contigs = None
		elif founders and r < (0.35 if ties else 0.10):
			contigs = list(rng.choice(founders))                                   # identical genome -> tied distances
		elif founders and r < 0.65:
			contigs = G.mutate(rng, rng.choice(founders), rng.choice([0.005, 0.02, 0.05, 0.1, 0.3]))
		else:
			contigs = G.make_genome(rng, rng.randint(1, 4), 300, 2500)
			founders.append(contigs)
		tid = rng.randint(1, len(w.taxa))
		n = gi + 1
		w.genomes.append(dict(
			id=n, key=f'gen/{n:03d}', description=f'Genome {n} of taxon {tid}' if rng.random() < .8 else f'G{n}, "quoted" é',
			organism=f'Organism {tid}', taxon=tid, ncbi_db='assembly', ncbi_id=5000 + n * 7,
			genbank_acc=f'GCA_{n:09d}.1', refseq_acc=f'GCF_{n:09d}.1', contigs=contigs,
		))
	for gi, g in enumerate(w.genomes):
		if fast_sigs:
			g['sig'] = sig_sets[gi].astype(kspec.index_dtype)
		else:
			g['sig'] = np.asarray(calc_signature(kspec, g['contigs']))

	# signature file: permuted order, padded with unrelated signatures
	if n_pad is None:
		n_pad = rng.choice([0, 0, 1, 3])
	rows = list(range(n_genomes)) + [None] * n_pad
	rng.shuffle(rows)
	w.sig_order = rows
	sigs, ids = [], []
	pad_n = 0
	for r in rows:
		if r is None:
			pad_n += 1
			sigs.append(np.asarray(calc_signature(kspec, G.make_genome(rng, 1, 200, 800))))
			ids.append({'key': f'pad/{pad_n}', 'genbank_acc': f'GCA_9{pad_n:08d}.1', 'refseq_acc': f'GCF_9{pad_n:08d}.1', 'ncbi_id': 900000 + pad_n}[w.id_attr])
		else:
			sigs.append(w.genomes[r]['sig'])
			ids.append(w.genomes[r][w.id_attr])
	w.sig_ids = ids

	d = os.path.join(ctx.scratch, dirname)
	os.makedirs(d, exist_ok=True)
	w.dir = d
	w.gdb = os.path.join(d, 'ref.gdb')
	w.gs = os.path.join(d, 'ref.gs')

	engine = create_engine(f'sqlite:///{w.gdb}')
	Base.metadata.create_all(engine)
	with Session(engine) as s:
		gset = ReferenceGenomeSet(key='gvsim/test', version='1.0', name='gvsim generated', description='generated', extra=dict(author='gvsim'))
		s.add(gset)
		tobj = {}
		for t in w.taxa:
			o = Taxon(id=t['id'], key=t['key'], name=t['name'], rank=t['rank'], distance_threshold=t['threshold'], report=t['report'],
			          ncbi_id=t['ncbi_id'], genome_set=gset, parent=tobj.get(t['parent']))
			tobj[t['id']] = o
			s.add(o)
		s.flush()
		for t in w.taxa:
			assert tobj[t['id']].id == t['id']
		for g in w.genomes:
			go = Genome(id=g['id'], key=g['key'], description=g['description'], ncbi_db=g['ncbi_db'], ncbi_id=g['ncbi_id'],
			            genbank_acc=g['genbank_acc'], refseq_acc=g['refseq_acc'])
			s.add(go)
			s.flush()
			assert go.id == g['id']
			s.add(AnnotatedGenome(genome=go, genome_set=gset, taxon=tobj[g['taxon']], organism=g['organism']))
		s.commit()
	engine.dispose()

	if w.id_attr == 'ncbi_id':
		ids_arr = np.array(ids, dtype=np.int64)
	else:
		ids_arr = np.array(ids, dtype=object)
	meta = SignaturesMeta(id='gvsim/sigs', name='gvsim sigs', version='1.0', id_attr=w.id_attr, description='generated',
	                      extra=dict(author='gvsim', revision=dict(num=1, date='2020-01-01', author='x', description='y')))
	sa = SignatureArray(sigs, kspec, dtype=kspec.index_dtype)
	dump_signatures(w.gs, AnnotatedSignatures(sa, ids_arr, meta))
	return w


# ---- oracle-side helpers on the plain description -------------------------------------------------

def lineage(w, tid):
	"""taxon ids from tid up to its root."""
	out = []
	while tid is not None:
		out.append(tid)
		tid = w.taxon(tid)['parent']
	return out


def matching_taxon(w, tid, d):
	"""threshold walk: most specific taxon in the lineage with threshold >= d."""
	for t in lineage(w, tid):
		thr = w.taxon(t)['threshold']
		if thr is not None and d <= thr:
			return t
	return None


def reportable(w, tid):
	if tid is None:
		return None
	for t in lineage(w, tid):
		if w.taxon(t)['report']:
			return t
	return None


def db_order(w):
	"""Genome indices in the order gambit's ReferenceDatabase lists them: signature-file order,
	padding rows dropped."""
	return [r for r in w.sig_order if r is not None]
