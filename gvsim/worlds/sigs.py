"""Signature collections: sorted duplicate-free integer arrays with deliberately awkward relations
(empty, singleton, equal, nested, interleaved, disjoint)."""
import random

import numpy as np


def random_set(rng, universe, size):
	size = min(size, universe)
	if size <= 0:
		return np.empty(0, dtype=np.int64)
	if universe <= 4 * size or universe < 100000:
		vals = rng.sample(range(universe), size)
	else:
		vals = set()
		while len(vals) < size:
			vals.add(rng.randrange(universe))
	return np.array(sorted(vals), dtype=np.uint64)


def make_collection(rng, n, universe, max_size=120):
	"""n arrays (uint64 values) over range(universe)."""
	out = []
	for i in range(n):
		r = rng.random()
		if out and r < 0.12:
			a = out[rng.randrange(len(out))].copy()                       # equal to an earlier one
		elif out and r < 0.22:
			b = out[rng.randrange(len(out))]
			keep = [v for v in b.tolist() if rng.random() < 0.5]           # nested (subset)
			a = np.array(keep, dtype=np.uint64)
		elif out and r < 0.30:
			b = out[rng.randrange(len(out))]
			extra = random_set(rng, universe, rng.randint(1, 10))
			a = np.union1d(b, extra).astype(np.uint64)                     # superset
		elif r < 0.36:
			a = np.empty(0, dtype=np.uint64)                                # empty
		elif r < 0.42:
			a = np.array([rng.randrange(universe)], dtype=np.uint64)        # singleton
		elif out and r < 0.50 and universe > 8:
			b = out[rng.randrange(len(out))]
			a = np.array(sorted({(int(v) + 1) % universe for v in b.tolist()}), dtype=np.uint64)  # interleaved
		else:
			a = random_set(rng, universe, rng.randint(1, max_size))
		out.append(a)
	return out


def universe_for(rng, dtypes):
	"""A universe size every dtype in `dtypes` can hold without sign trouble."""
	cap = min(np.iinfo(d).max for d in dtypes)
	choices = [u for u in (16, 64, 1024, 4096, 32767, 2 ** 20, 2 ** 31 - 1, 2 ** 40, 2 ** 63 - 1) if u <= cap]
	weights = [3, 3, 4, 4, 3, 1, 1, 1, 1][:len(choices)]
	return rng.choices(choices, weights)[0]
