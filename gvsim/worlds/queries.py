"""A pool of query genomes for a reference world: each present as a plain file and as a gzip file in
different directories, plus a pre-computed signature file of the pool."""
import os
import random

import numpy as np

from . import genomes as G

STEMS = ['sampleA', 'iso_2', 'run-3', 'X4', 'my sample5', 's6_contigs', 'q7', 'Genome8', 'souche_\u00e99']     # one non-ASCII name
# names without any extension whose tail merely looks like one: the label is the name itself
BARE_STEMS = ['MRSA_alfa', 'plate3_bigz', 'run12_ffn', 'ctg_fna', 'wgs_fasta']


class QueryPool:
	def __init__(self):
		self.genomes = []    # dicts: stem, contigs, plain (path), gz (path), ext, sig
		self.sigfile = None
		self.sig_ids = None  # ids stored in the signature file, pool order
		self.root = None


def build(ctx, rng, refworld, n, subdir='queries', int_ids=False, name_offset=0):
	from gambit.sigs.calc import calc_signature
	from gambit.sigs.base import SignatureArray, AnnotatedSignatures, SignaturesMeta, dump_signatures
	pool = QueryPool()
	root = os.path.join(ctx.scratch, subdir)
	pool.root = root
	kspec = refworld.kspec
	stems = list(STEMS)
	rng.shuffle(stems)
	for i in range(n):
		r = rng.random()
		if refworld.genomes and r < 0.2:
			contigs = list(rng.choice(refworld.genomes)['contigs'])                           # identical to a reference
		elif refworld.genomes and r < 0.75:
			contigs = G.mutate(rng, rng.choice(refworld.genomes)['contigs'], rng.choice([0.002, 0.01, 0.03, 0.08, 0.2]))
		else:
			contigs = G.make_genome(rng, rng.randint(1, 3), 300, 2000)                         # unrelated
		stem = stems[i % len(stems)] + (f'_{i // len(stems)}' if i >= len(stems) else '')
		ext = rng.choice(G.FASTA_EXTS)
		if rng.random() < 0.15:
			stem, ext = BARE_STEMS[i % len(BARE_STEMS)] + (f'{i}' if i >= len(BARE_STEMS) else ''), ''
		deco = G.decorate(rng, contigs, lower_frac=rng.choice([0, 0, .3]), n_frac=0)
		kw = dict(width=rng.choice([60, 70, 80, 13]), crlf=rng.random() < .15, final_newline=rng.random() < .85)
		plain = G.write_fasta(os.path.join(root, 'plain', stem + ext), deco, gz=False, **kw)
		gzpath = os.path.join(root, 'packed', 'deep', stem + ext + '.gz')
		if rng.random() < 0.35:
			# multi-member gzip (what bgzip or `cat a.gz b.gz` produce): members cut at line boundaries
			raw = G.fasta_bytes(deco, **kw)
			lines = raw.splitlines(keepends=True)
			cuts = sorted(rng.sample(range(1, len(lines)), min(len(lines) - 1, rng.randint(1, 3)))) if len(lines) > 1 else []
			parts, last = [], 0
			for c in cuts + [len(lines)]:
				parts.append(b''.join(lines[last:c]))
				last = c
			gz = G.write_file(gzpath, b''.join(G.gz_bytes(p) for p in parts if p))
		else:
			gz = G.write_fasta(gzpath, deco, gz=True, **kw)
		pool.genomes.append(dict(stem=stem, ext=ext, contigs=contigs, plain=plain, gz=gz, deco=deco, kw=kw,
		                         sig=np.asarray(calc_signature(kspec, contigs))))
	# homonyms: a file in another directory that carries genome i's content under genome j's name, and a
	# decoy working directory that mirrors the relative layout of the pool with the contents rotated
	# (a command given --ldir / absolute paths must never pick these up)
	pool.decoy_cwd = os.path.join(root, 'cwd')
	os.makedirs(pool.decoy_cwd, exist_ok=True)
	for i, g in enumerate(pool.genomes):
		j = (i + 1) % n
		other = pool.genomes[j]
		g['alias'] = None
		# a symbolic link with its own name (how workflow managers stage inputs): the label is the link's name
		g['link'] = os.path.join(root, 'staged', f'input_{i}' + (g['ext'] or '.fa'))
		os.makedirs(os.path.dirname(g['link']), exist_ok=True)
		os.symlink(g['plain'], g['link'])
		if n > 1:
			g['alias'] = G.write_fasta(os.path.join(root, 'aliases', f'd{i}', other['stem'] + other['ext']), g['deco'], gz=False, **g['kw'])
			for rel, gz in ((os.path.relpath(other['plain'], root), False), (os.path.relpath(other['gz'], root), True)):
				G.write_fasta(os.path.join(pool.decoy_cwd, rel), g['deco'], gz=gz, **g['kw'])
	# a file that fails in mid-parse: gzip member cut before its trailer, several contigs so that records are
	# delivered before the failure
	bc = G.make_genome(rng, 3, 400, 900)
	bdata = G.gz_bytes(G.fasta_bytes(bc))
	pool.broken = G.write_file(os.path.join(root, 'broken', 'cut.fasta.gz'), bdata[:len(bdata) * 3 // 4])
	if int_ids:
		ids = np.array([0 + 3 * i for i in range(n)], dtype=np.int64)      # includes the id 0
	else:
		ids = np.array([g['stem'] for g in pool.genomes], dtype=object)
	pool.sig_ids = [x.item() if hasattr(x, 'item') else x for x in ids]
	pool.sigfile = os.path.join(root, 'pool.gs')
	sa = SignatureArray([g['sig'] for g in pool.genomes], kspec, dtype=kspec.index_dtype)
	dump_signatures(pool.sigfile, AnnotatedSignatures(sa, ids, SignaturesMeta(id='pool', name='query pool')))
	return pool
