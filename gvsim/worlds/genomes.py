"""Genome / FASTA generator. Bulk content comes from random.Random(subseed); a subseed is one
entry of the run's choice sequence."""
import gzip
import io
import os
import random

NUC = b'ACGT'
FASTA_EXTS = ('.fasta', '.fna', '.fa', '.ffn', '.frn')


def random_seq(rng, n):
	return bytes(rng.choice(NUC) for _ in range(n))


def make_genome(rng, ncontigs, lo=300, hi=2000):
	return [random_seq(rng, rng.randint(lo, hi)) for _ in range(ncontigs)]


def mutate(rng, contigs, rate):
	"""Copy with substitutions at the given per-base rate."""
	out = []
	for c in contigs:
		b = bytearray(c)
		for i in range(len(b)):
			if rng.random() < rate:
				b[i] = rng.choice(NUC)
		out.append(bytes(b))
	return out


def decorate(rng, contigs, lower_frac=0.0, n_frac=0.0):
	"""Sprinkle lower case and N; lower case does not change the signature, N does (it is content)."""
	out = []
	for c in contigs:
		b = bytearray(c)
		for i in range(len(b)):
			r = rng.random()
			if r < n_frac:
				b[i] = ord('N')
			elif r < n_frac + lower_frac:
				b[i] = b[i] | 0x20
		out.append(bytes(b))
	return out


def fasta_bytes(contigs, width=70, crlf=False, final_newline=True, prefix='c'):
	nl = b'\r\n' if crlf else b'\n'
	buf = io.BytesIO()
	for i, c in enumerate(contigs):
		buf.write(b'>' + f'{prefix}{i} len={len(c)}'.encode() + nl)
		for j in range(0, len(c), width):
			buf.write(c[j:j + width] + nl)
	data = buf.getvalue()
	if not final_newline and data.endswith(nl):
		data = data[:-len(nl)]
	return data


def gz_bytes(data):
	buf = io.BytesIO()
	with gzip.GzipFile(fileobj=buf, mode='wb', mtime=0) as f:
		f.write(data)
	return buf.getvalue()


def write_file(path, data):
	os.makedirs(os.path.dirname(path), exist_ok=True)
	with open(path, 'wb') as f:
		f.write(data)
	return path


def write_fasta(path, contigs, gz=False, **kw):
	data = fasta_bytes(contigs, **kw)
	if gz:
		data = gz_bytes(data)
	return write_file(path, data)
