"""Seam S6: interrupt (KeyboardInterrupt) or kill (SIGKILL) at the k-th Python line event executed in
a gambit.* frame - an exact function of (code, k)."""
import os
import signal
import sys


class LineTrigger:
	def __init__(self, k, action):
		self.k = k
		self.n = 0
		self.action = action   # 'interrupt' | 'kill'
		self.fired = False
		self.where = None

	def _local(self, frame, event, arg):
		if event == 'line':
			self.n += 1
			if self.n == self.k and not self.fired:
				self.fired = True
				self.where = f'{os.path.basename(frame.f_code.co_filename)}:{frame.f_lineno}'
				sys.settrace(None)
				if self.action == 'kill':
					os.kill(os.getpid(), signal.SIGKILL)
					signal.pause()
				raise KeyboardInterrupt()
		return self._local

	def _global(self, frame, event, arg):
		if self.fired:
			return None
		mod = frame.f_globals.get('__name__', '')
		if mod == 'gambit' or mod.startswith('gambit.'):
			return self._local
		return None

	def __enter__(self):
		sys.settrace(self._global)
		return self

	def __exit__(self, *a):
		sys.settrace(None)
		return False
