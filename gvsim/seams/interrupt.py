"""Seam S6: interrupt (KeyboardInterrupt) or kill (SIGKILL) at the k-th Python line event executed in
a gambit.* frame - an exact function of (code, k)."""
import os
import signal
import sys


class LineTrigger:
	def __init__(self, k, action):
		self.k = k
		self.n = 0
		self.action = action   # 'interrupt' | 'kill'
		self.fired = False
		self.where = None
		self._lastline = {}

	def _local(self, frame, event, arg):
		# CPython 3.12 emits a second 'line' event when a frame resumes on the same line after a call returns -
		# except the first time a code object is traced in a process. Counting a line once per visit (consecutive
		# events of one frame on one line collapse) makes the count a function of the code alone.
		if event == 'return':
			self._lastline.pop(id(frame), None)
		elif event == 'line':
			if self._lastline.get(id(frame)) == frame.f_lineno:
				return self._local
			self._lastline[id(frame)] = frame.f_lineno
			self.n += 1
			if self.n == self.k and not self.fired:
				self.fired = True
				self.where = f'{os.path.basename(frame.f_code.co_filename)}:{frame.f_lineno}'
				sys.settrace(None)
				if self.action == 'kill':
					os.kill(os.getpid(), signal.SIGKILL)
					signal.pause()
				raise KeyboardInterrupt()
		return self._local

	def _global(self, frame, event, arg):
		if self.fired:
			return None
		mod = frame.f_globals.get('__name__', '')
		if mod == 'gambit' or mod.startswith('gambit.'):
			return self._local
		return None

	def __enter__(self):
		sys.settrace(self._global)
		return self

	def __exit__(self, *a):
		sys.settrace(None)
		return False
