"""Read faults on a file-backed signature collection (seam S4 for HDF5): the k-th read of a dataset
raises once - an I/O error, or the KeyboardInterrupt a Ctrl-C becomes.  Afterwards the same open
collection must still give right answers (an operation may fail, it may never return wrong data)."""
import contextlib


class _State:
	active = False
	k = 0
	n = 0
	exc = OSError
	fired = False
	installed = False


S = _State()


def _install():
	if S.installed:
		return
	S.installed = True
	import h5py
	orig = h5py.Dataset.__getitem__

	def getitem(self, args, *a, **kw):
		if S.active and not S.fired and self.name in ('/values', '/bounds'):
			S.n += 1
			if S.n == S.k:
				S.fired = True
				if S.exc is OSError:
					raise OSError(5, 'simulated I/O error while reading ' + self.name)
				raise S.exc()
		return orig(self, args, *a, **kw)
	h5py.Dataset.__getitem__ = getitem


@contextlib.contextmanager
def read_fault(k, exc=OSError):
	_install()
	S.active, S.k, S.n, S.exc, S.fired = True, k, 0, exc, False
	try:
		yield S
	finally:
		S.active = False
