"""Seam S4: read-side I/O faults for files under the run's scratch directory.

`install()` wraps builtins.open once per interpreter.  While a plan is active (`activate(plan)`),
opening a planned path for reading yields TextIOWrapper(BufferedReader(SimRaw)) (or the binary part
of that stack) around the real file; everything else goes to the real open().

Plan entries (per absolute path):
  {'open_error': errno}                      -> OSError at open
  {'eio_at': k, 'transient': bool}           -> OSError(EIO) on the k-th readinto (1-based); if not
                                                transient, on every later one too.  A transient fault
                                                fires once per *plan*, not once per open.
  {'short': seed}                            -> short reads (legal), sizes from a per-file sub-seed
A path may carry 'short' together with one of the others.
"""
import builtins
import errno
import io
import os
import random

_real_open = builtins.open
_plan = None
_installed = False


class Plan:
	def __init__(self, ctx):
		self.ctx = ctx
		self.files = {}          # abspath -> dict
		self.transient_fired = set()
		self.opens = {}          # abspath -> number of opens (coverage only)
		self.enabled_transient = True

	def set(self, path, **spec):
		self.files[os.path.abspath(os.fspath(path))] = spec


class SimRaw(io.RawIOBase):
	def __init__(self, path, spec, plan, open_path=None):
		# open what the caller named (the OS resolves symlinks before '..'); `path` is only the bookkeeping key
		self._f = io.FileIO(open_path if open_path is not None else path, 'r')
		self._spec = spec
		self._plan = plan
		self._path = path
		self._nread = 0
		self._rng = random.Random(spec['short']) if 'short' in spec else None
		self.name = path
		self.mode = 'rb'

	def readable(self):
		return True

	def seekable(self):
		return True

	def writable(self):
		return False

	def seek(self, off, whence=0):
		return self._f.seek(off, whence)

	def tell(self):
		return self._f.tell()

	def fileno(self):
		return self._f.fileno()

	def readinto(self, b):
		self._nread += 1
		spec = self._spec
		k = spec.get('eio_at')
		if k is not None:
			if spec.get('transient'):
				if (self._nread >= k and self._path not in self._plan.transient_fired
						and self._plan.enabled_transient):
					self._plan.transient_fired.add(self._path)
					self._plan.ctx.fault('eio_transient', file=os.path.basename(self._path), read=self._nread)
					raise OSError(errno.EIO, 'simulated transient I/O error', self._path)
			elif self._nread >= k:
				self._plan.ctx.fault('eio', file=os.path.basename(self._path), read=self._nread)
				raise OSError(errno.EIO, 'simulated I/O error', self._path)
		if self._rng is not None and len(b) > 1:
			n = min(len(b), self._rng.choice((1, 2, 7, 512, 4096)))
			if n < len(b):
				self._plan.ctx.probe('short_read')
				mv = memoryview(b)[:n]
				return self._f.readinto(mv)
		return self._f.readinto(b)

	def close(self):
		if not self.closed:
			try:
				self._f.close()
			finally:
				super().close()


def _open(file, mode='r', buffering=-1, encoding=None, errors=None, newline=None, closefd=True, opener=None):
	plan = _plan
	if plan is not None and isinstance(file, (str, os.PathLike)) and opener is None:
		try:
			ap = os.path.abspath(os.fspath(file))
		except TypeError:
			ap = None
		spec = plan.files.get(ap) if ap is not None else None
		if spec is not None and 'r' in mode and '+' not in mode:
			plan.opens[ap] = plan.opens.get(ap, 0) + 1
			oe = spec.get('open_error')
			if oe is not None:
				plan.ctx.fault('open_' + errno.errorcode.get(oe, str(oe)).lower(), file=os.path.basename(ap))
				raise OSError(oe, os.strerror(oe), os.fspath(file))
			if spec.get('fifo') is not None:
				raw = _open_prefilled_fifo(os.fspath(file), spec['fifo'], lambda: SimRaw(ap, spec, plan, open_path=os.fspath(file)))
			else:
				raw = SimRaw(ap, spec, plan, open_path=os.fspath(file))
			if buffering == 0:
				if 'b' not in mode:
					raise ValueError("can't have unbuffered text I/O")
				return raw
			buf = io.BufferedReader(raw, buffering if buffering > 1 else io.DEFAULT_BUFFER_SIZE)
			if 'b' in mode:
				return buf
			return io.TextIOWrapper(buf, encoding=encoding, errors=errors, newline=newline)
	return _real_open(file, mode, buffering, encoding, errors, newline, closefd, opener)


def _open_prefilled_fifo(path, data, make_reader):
	"""A named pipe whose content is already in the pipe when the reader opens it - no feeder thread, nothing left to
	timing: the harness holds the pipe open read-write (which never blocks on Linux), writes the content (it fits the
	64 KiB pipe buffer by construction), lets the reader open, and lets go; the reader then sees the content and EOF."""
	keep = os.open(path, os.O_RDWR | os.O_NONBLOCK)
	try:
		off = 0
		while off < len(data):
			off += os.write(keep, data[off:])
		return make_reader()
	finally:
		os.close(keep)


def install():
	global _installed
	if _installed:
		return
	_installed = True
	builtins.open = _open
	io.open = _open


def activate(plan):
	global _plan
	_plan = plan


def deactivate():
	global _plan
	_plan = None
