"""Seam S2 (python side): control of the LD_PRELOADed gompsim shim, and the OpenMP thread setting."""
import ctypes
import os

from ..engine import HarnessError

THREAD_POLICIES = ['uniform', 'lowest_hogs', 'highest_hogs', 'round_robin', 'thread0_starved']
ORDER_POLICIES = ['ascending', 'descending', 'permuted']

_lib = None


def lib():
	global _lib
	if _lib is None:
		pre = os.environ.get('LD_PRELOAD', '')
		path = [p for p in pre.split(':') if p.endswith('gompsim.so')]
		if not path:
			raise HarnessError('gompsim.so is not preloaded in this interpreter')
		_lib = ctypes.CDLL(path[0])
		_lib.gompsim_arm.argtypes = [ctypes.c_uint64, ctypes.c_int, ctypes.c_int]
		_lib.gompsim_arm.restype = None
		_lib.gompsim_signature.restype = ctypes.c_uint64
		_lib.gompsim_stats.argtypes = [ctypes.POINTER(ctypes.c_long)]
		_lib.gompsim_trace.restype = ctypes.c_long
	return _lib


def available():
	return 'gompsim.so' in os.environ.get('LD_PRELOAD', '')


def arm(seed, thread_policy, order_policy):
	lib().gompsim_arm(seed & 0xFFFFFFFFFFFFFFFF, THREAD_POLICIES.index(thread_policy), ORDER_POLICIES.index(order_policy))


def disarm():
	lib().gompsim_disarm()


def signature():
	return f'{lib().gompsim_signature():016x}'


def stats():
	a = (ctypes.c_long * 5)()
	lib().gompsim_stats(a)
	return dict(regions=a[0], iterations=a[1], multi_thread_regions=a[2], max_team=a[3], max_executing=a[4])


def trace(cap=4096):
	r = (ctypes.c_long * cap)()
	i = (ctypes.c_long * cap)()
	t = (ctypes.c_int * cap)()
	n = lib().gompsim_trace(r, i, t, cap)
	m = min(n, cap)
	return [(r[j], i[j], t[j]) for j in range(m)], n


def set_threads(n):
	from gambit._cython.threads import omp_set_num_threads
	omp_set_num_threads(int(n))


def get_max_threads():
	from gambit._cython.threads import omp_get_max_threads
	return omp_get_max_threads()


class Armed:
	"""Context manager: arm for the duration of a block, collect stats into ctx."""

	def __init__(self, ctx, seed, thread_policy, order_policy):
		self.ctx, self.seed, self.tp, self.op = ctx, seed, thread_policy, order_policy

	def __enter__(self):
		arm(self.seed, self.tp, self.op)
		return self

	def __exit__(self, *a):
		st = stats()
		self.sig = signature()
		disarm()
		ctx = self.ctx
		ctx.stats['omp_regions'] += st['regions']
		ctx.stats['omp_iterations'] += st['iterations']
		ctx.stats['steps'] += st['iterations']
		ctx.step += st['iterations']
		if st['multi_thread_regions']:
			ctx.probe('region_with_ge2_threads_executing', st['multi_thread_regions'])
		self.stats = st
		return False
