"""Zygote: a helper process forked at worker start, before the worker has ever entered an OpenMP
parallel region or opened an HDF5/SQLite handle.  Work that must run in a forked child later (a command
that is SIGKILLed at a chosen point) is forked from the zygote, not from the worker, because libgomp's
thread pool does not survive fork (DESIGN 3.6, fork rule).

Protocol (pickle over pipes): worker -> zygote: (module, function, args); the zygote forks a grandchild,
which imports the module, runs function(*args) and sends back its result; zygote -> worker:
dict(killed, signal, exit, result).
"""
import importlib
import os
import pickle
import signal
import struct
import sys
import traceback

_z = None


def _send(fd, obj):
	data = pickle.dumps(obj)
	os.write(fd, struct.pack('<Q', len(data)))
	off = 0
	while off < len(data):
		off += os.write(fd, data[off:off + 65536])


def _recv(fd):
	hdr = b''
	while len(hdr) < 8:
		b = os.read(fd, 8 - len(hdr))
		if not b:
			return None
		hdr += b
	(n,) = struct.unpack('<Q', hdr)
	buf = b''
	while len(buf) < n:
		b = os.read(fd, min(1 << 20, n - len(buf)))
		if not b:
			return None
		buf += b
	return pickle.loads(buf)


def _grandchild(req, wfd):
	try:
		mod = importlib.import_module(req[0])
		out = getattr(mod, req[1])(*req[2])
		_send(wfd, dict(ok=True, out=out))
	except BaseException as e:
		try:
			_send(wfd, dict(ok=False, exc=type(e).__name__, msg=str(e)[:400], tb=traceback.format_exc()[-1500:]))
		except Exception:
			pass
	finally:
		os._exit(0)


def _zygote_loop(rfd, wfd):
	while True:
		req = _recv(rfd)
		if req is None or req == 'quit':
			os._exit(0)
		r2, w2 = os.pipe()
		pid = os.fork()
		if pid == 0:
			os.close(r2)
			signal.alarm(req[3] if len(req) > 3 else 120)
			_grandchild(req, w2)
		os.close(w2)
		res = _recv(r2)
		os.close(r2)
		_, status = os.waitpid(pid, 0)
		_send(wfd, dict(killed=os.WIFSIGNALED(status), signal=os.WTERMSIG(status) if os.WIFSIGNALED(status) else None,
		                exit=os.WEXITSTATUS(status) if os.WIFEXITED(status) else None, result=res))


class Zygote:
	def __init__(self):
		to_z_r, to_z_w = os.pipe()
		from_z_r, from_z_w = os.pipe()
		sys.stdout.flush()
		sys.stderr.flush()
		pid = os.fork()
		if pid == 0:
			os.close(to_z_w)
			os.close(from_z_r)
			try:
				_zygote_loop(to_z_r, from_z_w)
			finally:
				os._exit(0)
		os.close(to_z_r)
		os.close(from_z_w)
		self.pid = pid
		self.w = to_z_w
		self.r = from_z_r

	def call(self, module, function, args, timeout=120):
		_send(self.w, (module, function, args, timeout))
		return _recv(self.r)

	def close(self):
		try:
			_send(self.w, 'quit')
			os.close(self.w)
			os.close(self.r)
			os.waitpid(self.pid, 0)
		except Exception:
			pass


def start():
	"""Call once per worker, before anything touches OpenMP."""
	global _z
	if _z is None:
		_z = Zygote()
	return _z


def get():
	return _z


def stop():
	global _z
	if _z is not None:
		_z.close()
		_z = None
