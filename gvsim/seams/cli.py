"""In-process execution of the real gambit command line (seam S5, DESIGN 3.8).

run(args) calls gambit.cli.cli.main(args, standalone_mode=False) with stdout/stderr captured and maps
ClickException / Exit / Abort / SystemExit to an exit status the way click's standalone mode would.
"""
import contextlib
import gc
import io
import sys

from ..engine import HarnessError


class Result:
	__slots__ = ('status', 'stdout', 'stderr', 'exc')

	def __repr__(self):
		return f'<cli status={self.status} exc={type(self.exc).__name__ if self.exc else None}>'


def run(args, env=None, collect=True):
	import click
	from gambit.cli import cli
	out, err = io.StringIO(), io.StringIO()
	res = Result()
	res.exc = None
	try:
		with contextlib.redirect_stdout(out), contextlib.redirect_stderr(err):
			try:
				rv = cli.main([str(a) for a in args], prog_name='gambit', standalone_mode=False)
				res.status = rv if isinstance(rv, int) else 0
			except click.exceptions.Exit as e:
				res.status = e.exit_code
			except click.ClickException as e:
				res.status = e.exit_code
				res.exc = e
				err.write(f'Error: {e.format_message()}\n')
			except click.Abort as e:
				res.status = 1
				res.exc = e
			except SystemExit as e:
				res.status = e.code if isinstance(e.code, int) else (0 if e.code is None else 1)
			except HarnessError:
				raise
			except KeyboardInterrupt as e:
				res.status = 130
				res.exc = e
			except Exception as e:  # an uncaught exception: python would exit 1 with a traceback
				res.status = 1
				res.exc = e
	finally:
		if collect:
			gc.collect()   # drops the command's SQLite engine / HDF5 handles deterministically
	res.stdout = out.getvalue()
	res.stderr = err.getvalue()
	return res
