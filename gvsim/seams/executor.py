"""Seam S1: a simulated concurrent.futures pool whose completion order the simulator decides.

`install()` rebinds, once per interpreter and before gambit is imported, the public names under
`concurrent.futures` (ThreadPoolExecutor, ProcessPoolExecutor, as_completed, wait) to dispatching
stand-ins: while a simulation is active (`activate(sim)`), pools created through those names are
SimExecutors and as_completed/wait step the simulated scheduler; otherwise the real implementations
are used.  gambit.sigs.calc binds its names at import time, hence "before gambit is imported"; the
names inside gambit.sigs.calc are rebound too in case it was imported earlier.

Semantics follow DESIGN appendix A.1.
"""
import concurrent.futures as cf
import concurrent.futures._base as cf_base
import concurrent.futures.thread as cf_thread
import concurrent.futures.process as cf_process
import pickle
import sys
import threading
from concurrent.futures.process import BrokenProcessPool

from ..engine import HarnessError

_real = dict(
	ThreadPoolExecutor=cf_thread.ThreadPoolExecutor,
	ProcessPoolExecutor=cf_process.ProcessPoolExecutor,
	as_completed=cf_base.as_completed,
	wait=cf_base.wait,
)

_active = None   # the Sim currently in charge (one per run)
_installed = False


class Sim:
	"""Scheduler shared by all pools of one run."""

	def __init__(self, ctx, machine_size=4, policy='uniform', script=None, starve=None, interleave=False, quantum=200):
		self.ctx = ctx
		# interleave: thread-flavour task bodies run in real threads, one at a time, pre-empted at Python line
		# events of gambit.* frames; the scheduler decides who runs next and for how many line events
		self.interleave = interleave
		self.quantum = quantum
		self.back = threading.Semaphore(0)
		self.aborting = False
		self.preemptions = 0
		# real pools run a future's done-callbacks in the worker (or queue-management) thread AFTER waking waiters:
		# a caller blocked in wait()/result() may run before them. With defer_callbacks the callbacks of a completed
		# future run at the next scheduler step, at pool shutdown(wait=True), or when the simulation ends.
		self.defer_callbacks = False
		self.deferred = []
		self.machine_size = machine_size
		self.policy = policy
		self.script = list(script) if script is not None else None
		self.starve = starve
		self.pools = []
		self.next_task_id = 0
		self.completion_order = []     # task ids in the order they completed
		self.in_flight_at_fault = 0
		# fault plan: dict task_id -> kind ('die', 'unpicklable'); interrupt_at: step number
		self.task_faults = {}
		self.interrupt_at = None
		self.cancel_at = None          # step at which the owner of a caller-supplied pool cancels its queued tasks
		self.blocking_steps = 0
		self.pool_log = []             # (flavour, max_workers) of every pool created

	# ---- choosing which running task completes next
	def _runnable(self):
		out = []
		for p in self.pools:
			p._fill()
			out.extend(p.running)
		out.sort(key=lambda t: t.tid)
		return out

	def run_deferred(self):
		while self.deferred:
			fut = self.deferred.pop(0)
			cf.Future._invoke_callbacks(fut)

	def step(self):
		"""Complete exactly one running task. Returns False if nothing is runnable."""
		if self.deferred:
			self.ctx.probe('done_callbacks_ran_after_waiters_woke')
			self.run_deferred()
		cands = self._runnable()
		if not cands:
			return False
		self.blocking_steps += 1
		if self.interrupt_at is not None and self.blocking_steps == self.interrupt_at:
			self.interrupt_at = None
			self.ctx.fault('interrupt', step=self.blocking_steps, in_flight=len(cands))
			raise KeyboardInterrupt()
		if self.cancel_at is not None and self.blocking_steps == self.cancel_at:
			self.cancel_at = None
			n_cancelled = 0
			for p in self.pools:
				for t in p.queue:
					if t.future.cancel():
						n_cancelled += 1
				p.queue = []
			if n_cancelled:
				self.ctx.fault('owner_cancelled_queued_tasks', n=n_cancelled, step=self.blocking_steps)
			cands = self._runnable()
			if not cands:
				return True
		if self.script is not None:
			task = None
			while self.script:
				tid = self.script[0]
				m = [t for t in cands if t.tid == tid]
				if m:
					task = m[0]
					self.script.pop(0)
					break
				# scripted id not running (already done / never submitted): drop it
				self.script.pop(0)
			if task is None:
				task = cands[0]
		elif len(cands) == 1:
			task = cands[0]
		elif self.policy == 'fifo':
			task = cands[0]
		elif self.policy == 'lifo':
			task = cands[-1]
		elif self.policy == 'starve':
			others = [t for t in cands if t.tid != self.starve]
			pool = others or cands
			task = pool[self.ctx.ch._draw(len(pool), 'complete')] if len(pool) > 1 else pool[0]
		else:
			task = cands[self.ctx.ch._draw(len(cands), 'complete')]
		if self.interleave and self.script is None and task.pool.flavour == 'threads' and task.tid not in self.task_faults:
			q = 1 + self.ctx.ch._draw(self.quantum, 'quantum')
			if not task.pool._advance(task, q):
				self.preemptions += 1
				return True     # progress, but nobody finished: the caller's condition is re-evaluated
		task.pool._complete(task, len(cands))
		return True

	def finish(self):
		"""Let every parked task thread run to its end (untraced) and join it. Called when the simulation ends."""
		self.aborting = True
		if self.deferred:
			self.ctx.probe('done_callbacks_ran_after_call_returned')
			try:
				self.run_deferred()
			except Exception:
				pass
		for p in self.pools:
			for t in list(p.running) + list(p.queue):
				th = getattr(t, 'thread', None)
				if th is not None and th.is_alive():
					t.budget = -1
					t.go.release()
					th.join(30)
		if self.preemptions:
			self.ctx.stats['thread_preemptions'] += self.preemptions
			self.ctx.probe('task_bodies_interleaved')

	def step_until(self, cond, what):
		while not cond():
			if not self.step():
				if cond():      # e.g. the last queued tasks turned out to be cancelled by their owner
					break
				raise HarnessError(f'deadlock in simulated pool: blocked on {what} with nothing runnable')


class _Task:
	__slots__ = ('tid', 'pool', 'future', 'fn', 'args', 'kwargs', 'payload', 'thread', 'go', 'budget', 'state', 'outcome')


def _is_gambit_frame(frame):
	mod = frame.f_globals.get('__name__', '')
	return mod == 'gambit' or mod.startswith('gambit.')


def _task_thread(sim, task):
	task.go.acquire()

	lastline = {}

	def local(frame, event, arg):
		if event == 'return':
			lastline.pop(id(frame), None)
		elif event == 'line' and task.budget >= 0:
			if lastline.get(id(frame)) == frame.f_lineno:     # see gvsim.seams.interrupt: resume events are not counted
				return local
			lastline[id(frame)] = frame.f_lineno
			task.budget -= 1
			if task.budget <= 0 and not sim.aborting:
				task.state = 'parked'
				sim.back.release()
				task.go.acquire()
		return local

	def glob(frame, event, arg):
		return local if _is_gambit_frame(frame) else None
	sys.settrace(glob)
	try:
		try:
			task.outcome = ('ok', task.fn(*task.args, **task.kwargs))
		except BaseException as e:  # noqa
			task.outcome = ('exc', e)
	finally:
		sys.settrace(None)
		task.state = 'done'
		sim.back.release()


class SimFuture(cf.Future):
	def __init__(self, sim, tid):
		super().__init__()
		self._sim = sim
		self._tid = tid

	def result(self, timeout=None):
		if not self.done():
			self._sim.step_until(self.done, f'future of task {self._tid}')
		return super().result(0)

	def exception(self, timeout=None):
		if not self.done():
			self._sim.step_until(self.done, f'future of task {self._tid}')
		return super().exception(0)

	def _invoke_callbacks(self):
		if self._sim.defer_callbacks and not self._sim.aborting and self._done_callbacks:
			self._sim.deferred.append(self)
		else:
			super()._invoke_callbacks()


class SimExecutor(cf.Executor):
	"""In-process stand-in for ThreadPoolExecutor ('threads') / ProcessPoolExecutor ('processes')."""

	def __init__(self, max_workers=None, flavour='threads', sim=None, **_ignored):
		sim = sim or _active
		if sim is None:
			raise HarnessError('SimExecutor created with no active simulation')
		if max_workers is not None and max_workers <= 0:
			raise ValueError('max_workers must be greater than 0')
		self.sim = sim
		self.flavour = flavour
		if max_workers is None:
			max_workers = sim.machine_size
			sim.ctx.probe('pool_default_size')
		self.max_workers = max_workers
		self.queue = []
		self.running = []
		self.is_shutdown = False
		self.broken = False
		sim.pools.append(self)
		sim.pool_log.append((flavour, max_workers))
		sim.ctx.log('pool', flavour=flavour, max_workers=max_workers)

	def _fill(self):
		while self.queue and len(self.running) < self.max_workers:
			t = self.queue.pop(0)
			if t.future.set_running_or_notify_cancel():
				self.running.append(t)

	def submit(self, fn, /, *args, **kwargs):
		if self.broken:
			raise BrokenProcessPool('A child process terminated abruptly, the process pool is not usable anymore')
		if self.is_shutdown:
			raise RuntimeError('cannot schedule new futures after shutdown')
		sim = self.sim
		t = _Task()
		t.tid = sim.next_task_id
		sim.next_task_id += 1
		t.pool = self
		t.future = SimFuture(sim, t.tid)
		t.thread = None
		t.state = 'new'
		t.outcome = None
		if self.flavour == 'processes':
			# one pickle round trip, as the call queue of the real pool does
			t.payload = pickle.dumps((fn, args, kwargs))
			t.fn = t.args = t.kwargs = None
		else:
			t.payload = None
			t.fn, t.args, t.kwargs = fn, args, kwargs
		self.queue.append(t)
		sim.ctx.log('submit', task=t.tid)
		return t.future

	def _advance(self, task, quantum):
		"""Interleaved thread flavour: let the task's thread run for `quantum` line events. True if it finished."""
		if task.thread is None:
			task.go = threading.Semaphore(0)
			from . import escape
			task.thread = escape.own_thread(target=_task_thread, args=(self.sim, task), daemon=True)
			task.thread.start()
		task.budget = quantum
		task.go.release()
		self.sim.back.acquire()
		if task.state == 'done':
			task.thread.join()
			return True
		return False

	def _complete(self, task, n_running):
		sim = self.sim
		ctx = sim.ctx
		self.running.remove(task)
		ctx.tick()
		fault = sim.task_faults.get(task.tid)
		if fault == 'die' and self.flavour == 'processes':
			ctx.fault('worker_death', task=task.tid, in_flight=n_running)
			if n_running > 1 or self.queue:
				ctx.probe('fault_while_others_in_flight')
			self.broken = True
			exc = BrokenProcessPool('A process in the process pool was terminated abruptly while the future was running or pending.')
			victims = [task] + self.running + self.queue
			self.running = []
			self.queue = []
			for v in victims:
				if not v.future.done():
					# queued futures are still PENDING: move them to RUNNING first like the real pool's
					# terminate_broken does not; set_exception works from either state
					v.future.set_exception(exc)
			sim.completion_order.append(task.tid)
			return
		try:
			if self.flavour == 'processes':
				fn, args, kwargs = pickle.loads(task.payload)
			else:
				fn, args, kwargs = task.fn, task.args, task.kwargs
			if task.outcome is not None:      # body already ran in its own (interleaved) thread
				if task.outcome[0] == 'exc':
					raise task.outcome[1]
				result = task.outcome[1]
			else:
				result = fn(*args, **kwargs)
			if self.flavour == 'processes':
				if fault == 'unpicklable':
					ctx.fault('result_unpicklable', task=task.tid)
					raise pickle.PicklingError('simulated: result could not be pickled')
				result = pickle.loads(pickle.dumps(result))
		except BaseException as e:  # the real pools catch BaseException in the worker
			if isinstance(e, HarnessError):
				raise
			if self.flavour == 'processes':
				try:
					e2 = pickle.loads(pickle.dumps(e))
				except Exception:
					e2 = RuntimeError(f'unpicklable exception {type(e).__name__}: {e}')
				e = e2
			ctx.log('complete', task=task.tid, outcome='raised', exc=type(e).__name__, in_flight=n_running)
			sim.completion_order.append(task.tid)
			task.future.set_exception(e)
			return
		ctx.log('complete', task=task.tid, outcome='ok', in_flight=n_running)
		sim.completion_order.append(task.tid)
		task.future.set_result(result)

	def shutdown(self, wait=True, *, cancel_futures=False):
		self.is_shutdown = True
		if cancel_futures:
			for t in self.queue:
				t.future.cancel()
			self.queue = []
		if wait:
			self.sim.step_until(lambda: not self.queue and not self.running, 'pool shutdown')
			self.sim.run_deferred()      # joining the workers: their callbacks have run


class SimThreadPoolExecutor(SimExecutor):
	def __init__(self, max_workers=None, thread_name_prefix='', initializer=None, initargs=()):
		super().__init__(max_workers, 'threads')
		if initializer is not None:
			initializer(*initargs)


class SimProcessPoolExecutor(SimExecutor):
	def __init__(self, max_workers=None, mp_context=None, initializer=None, initargs=(), **kw):
		super().__init__(max_workers, 'processes')
		if initializer is not None:
			initializer(*initargs)


class _DispatchMeta(type):
	"""Makes `ThreadPoolExecutor(...)` build a sim pool while a simulation is active, and keeps
	isinstance()/issubclass() against the dispatching name meaningful."""

	def __call__(cls, *a, **kw):
		if _active is not None:
			return cls._sim_cls(*a, **kw)
		return cls._real_cls(*a, **kw)

	def __instancecheck__(cls, obj):
		return isinstance(obj, (cls._sim_cls, cls._real_cls))

	def __subclasscheck__(cls, sub):
		return issubclass(sub, (cls._sim_cls, cls._real_cls))


class ThreadPoolExecutor(cf.Executor, metaclass=_DispatchMeta):
	_sim_cls = SimThreadPoolExecutor
	_real_cls = _real['ThreadPoolExecutor']


class ProcessPoolExecutor(cf.Executor, metaclass=_DispatchMeta):
	_sim_cls = SimProcessPoolExecutor
	_real_cls = _real['ProcessPoolExecutor']


def _sims_of(fs):
	return [f for f in fs if isinstance(f, SimFuture)]


def as_completed(fs, timeout=None):
	fs = list(fs)
	sims = _sims_of(fs)
	if not sims:
		return _real['as_completed'](fs, timeout)
	if len(sims) != len(fs):
		raise HarnessError('as_completed over a mix of simulated and real futures')
	return _sim_as_completed(fs)


def _sim_as_completed(fs):
	# distinct futures, once each; finished ones first in the order given, then completion order
	seen = set()
	uniq = []
	for f in fs:
		if id(f) not in seen:
			seen.add(id(f))
			uniq.append(f)
	pending = []
	for f in uniq:
		if f.done():
			yield f
		else:
			pending.append(f)
	sim = pending[0]._sim if pending else None
	while pending:
		sim.step_until(lambda: any(f.done() for f in pending), 'as_completed')
		# several can finish in one step (worker death): yield in task order
		done = [f for f in pending if f.done()]
		pending = [f for f in pending if not f.done()]
		done.sort(key=lambda f: f._tid)
		for f in done:
			yield f


def wait(fs, timeout=None, return_when=cf.ALL_COMPLETED):
	fs = list(fs)
	sims = _sims_of(fs)
	if not sims:
		return _real['wait'](fs, timeout, return_when)
	if len(sims) != len(fs):
		raise HarnessError('wait over a mix of simulated and real futures')
	sim = sims[0]._sim

	def cond():
		done = [f for f in fs if f.done()]
		if return_when == cf.FIRST_COMPLETED:
			return len(done) > 0
		if return_when == cf.FIRST_EXCEPTION:
			return len(done) == len(fs) or any((not f.cancelled()) and f.exception(0) is not None for f in done)
		return len(done) == len(fs)

	sim.step_until(cond, 'wait')
	done = {f for f in fs if f.done()}
	return cf_base.DoneAndNotDoneFutures(done, set(fs) - done)


def install():
	"""Rebind the names (idempotent). Call before importing gambit."""
	global _installed
	if _installed:
		return
	_installed = True
	for mod in (cf, cf_base):
		mod.as_completed = as_completed
		mod.wait = wait
	cf.ThreadPoolExecutor = ThreadPoolExecutor
	cf.ProcessPoolExecutor = ProcessPoolExecutor
	cf_thread.ThreadPoolExecutor = ThreadPoolExecutor
	cf_process.ProcessPoolExecutor = ProcessPoolExecutor
	calc = sys.modules.get('gambit.sigs.calc')
	if calc is not None:
		rebind_module(calc)


def rebind_module(mod):
	"""Point a module's imported concurrent.futures names at the dispatching stand-ins."""
	for name, obj in (('ThreadPoolExecutor', ThreadPoolExecutor), ('ProcessPoolExecutor', ProcessPoolExecutor),
	                  ('as_completed', as_completed), ('wait', wait)):
		if hasattr(mod, name):
			setattr(mod, name, obj)


def activate(sim):
	global _active
	_active = sim
	from . import escape
	escape.watch(sim.ctx)


def deactivate():
	global _active
	if _active is not None:
		_active.finish()
	_active = None
	from . import escape
	escape.unwatch()


def real(name):
	return _real[name]
