"""Seam S3: crash points of a signature-file write (DESIGN 3.6).

A write is executed in a forked child that SIGKILLs itself
  (a) at h5py call boundary n  (AttributeManager.__setitem__, Group.create_dataset, Dataset.__setitem__,
      File open/close/flush), or
  (b) at write-class system call n on the target file (LD_PRELOADed native/pwkill.c), optionally after a
      page-aligned prefix of that call's buffer has been written ("tear").
The survivor file is examined by a second forked child (a corrupt file must not take the harness down).

Fork rule: the process that forks must never have entered an OpenMP parallel region (libgomp's pool
does not survive fork) and must hold no open HDF5 handle.  C19 workers satisfy this by construction
(nothing they do reaches the distance kernel); checks that do run OpenMP fork from a zygote instead.
"""
import ctypes
import os
import pickle
import signal
import struct
import sys
import traceback

from ..engine import HarnessError

_pw = None


def pwkill():
	global _pw
	if _pw is None:
		pre = os.environ.get('LD_PRELOAD', '')
		path = [p for p in pre.split(':') if p.endswith('pwkill.so')]
		if not path:
			raise HarnessError('pwkill.so is not preloaded in this interpreter')
		_pw = ctypes.CDLL(path[0])
		_pw.pwkill_arm.argtypes = [ctypes.c_char_p, ctypes.c_long, ctypes.c_long]
		_pw.pwkill_count.restype = ctypes.c_long
		_pw.pwkill_sizes.restype = ctypes.c_long
	return _pw


# ---------------------------------------------------------------------------------------------
# h5py call-boundary counter (armed only inside a forked writer child)

class _Boundaries:
	def __init__(self):
		self.n = 0
		self.how = 'kill'        # 'kill' SIGKILL | 'term' SIGTERM (default disposition unless the code installed a handler) | 'interrupt' KeyboardInterrupt (what SIGINT becomes)
		self.kill_at = None
		self.names = []
		self.installed = False

	def hit(self, name):
		if self.kill_at is not None and self.n == self.kill_at:
			self.kill_at = None
			if self.how == 'interrupt':
				raise KeyboardInterrupt()
			os.kill(os.getpid(), signal.SIGTERM if self.how == 'term' else signal.SIGKILL)
			signal.pause()      # a Python-level handler (if the code under test installed one) runs here and may raise
		self.n += 1
		self.names.append(name)

	def install(self):
		if self.installed:
			return
		self.installed = True
		import h5py
		B = self

		def wrap(cls, meth, name):
			orig = getattr(cls, meth)

			def w(*a, **kw):
				B.hit(name)
				return orig(*a, **kw)
			w.__name__ = meth
			setattr(cls, meth, w)
		wrap(h5py.AttributeManager, '__setitem__', 'attr')
		wrap(h5py.AttributeManager, 'create', 'attr.create')
		wrap(h5py.Group, 'create_dataset', 'create_dataset')
		wrap(h5py.Group, 'create_group', 'create_group')
		wrap(h5py.Group, 'require_group', 'require_group')
		wrap(h5py.Group, '__delitem__', 'group.del')
		wrap(h5py.Dataset, '__setitem__', 'dataset.write')
		wrap(h5py.Dataset, 'write_direct', 'dataset.write')
		wrap(h5py.Dataset, 'resize', 'dataset.resize')
		wrap(h5py.File, '__init__', 'file.open')
		wrap(h5py.File, 'close', 'file.close')
		wrap(h5py.File, 'flush', 'file.flush')


BOUND = _Boundaries()


def _child_main(fn, args, crash, target, wfd):
	"""Runs in the forked child. crash: None | ('h5', n) | ('sys', n, tear)."""
	try:
		BOUND.install()
		BOUND.n = 0
		BOUND.names = []
		BOUND.kill_at = None
		use_pw = target is not None and 'pwkill.so' in os.environ.get('LD_PRELOAD', '')
		BOUND.how = 'kill'
		if crash is not None and crash[0] in ('h5', 'h5term', 'h5int'):
			BOUND.kill_at = crash[1]
			BOUND.how = {'h5': 'kill', 'h5term': 'term', 'h5int': 'interrupt'}[crash[0]]
			if crash[0] == 'h5term':
				signal.signal(signal.SIGTERM, signal.SIG_DFL)   # the worker's own disposition must not leak into the writer
		if use_pw:
			if crash is not None and crash[0] == 'sys':
				pwkill().pwkill_arm(target.encode(), crash[1], crash[2])
			else:
				pwkill().pwkill_arm(target.encode(), 0, 0)
		out = fn(*args)
		info = dict(ok=True, out=out, boundaries=BOUND.n, names=BOUND.names)
		if use_pw:
			pw = pwkill()
			cap = 4096
			sz = (ctypes.c_long * cap)()
			kd = ctypes.create_string_buffer(cap)
			n = pw.pwkill_sizes(sz, kd, cap)
			info['syscalls'] = pw.pwkill_count()
			info['sizes'] = [sz[i] for i in range(n)]
			info['kinds'] = kd.raw[:n].decode()
		data = pickle.dumps(info)
	except BaseException as e:
		data = pickle.dumps(dict(ok=False, exc=type(e).__name__, msg=str(e)[:500], tb=traceback.format_exc()[-1500:],
		                         boundaries=BOUND.n))
		if isinstance(e, (KeyboardInterrupt, SystemExit)):
			# the process is ending the way an interpreter ends after an unhandled interrupt / sys.exit():
			# exit handlers (h5py closes whatever is still open) run before it is gone
			try:
				import atexit
				atexit._run_exitfuncs()
			except BaseException:
				pass
	try:
		os.write(wfd, struct.pack('<Q', len(data)))
		off = 0
		while off < len(data):
			off += os.write(wfd, data[off:off + 65536])
	finally:
		os._exit(0)


def run_forked(fn, args, crash=None, target=None, timeout=120):
	"""Fork; in the child run fn(*args) with the crash plan armed. Returns dict:
	   {'killed': bool, 'info': child's report or None}"""
	rfd, wfd = os.pipe()
	sys.stdout.flush()
	sys.stderr.flush()
	from . import escape
	with escape.own():
		pid = os.fork()
	if pid == 0:
		os.close(rfd)
		signal.alarm(timeout)
		_child_main(fn, args, crash, target, wfd)
		os._exit(0)
	os.close(wfd)
	chunks = []
	while True:
		b = os.read(rfd, 1 << 20)
		if not b:
			break
		chunks.append(b)
	os.close(rfd)
	_, status = os.waitpid(pid, 0)
	raw = b''.join(chunks)
	info = None
	if len(raw) >= 8:
		(n,) = struct.unpack('<Q', raw[:8])
		if len(raw) - 8 == n:
			info = pickle.loads(raw[8:])
	killed = os.WIFSIGNALED(status)
	sig = os.WTERMSIG(status) if killed else None
	if killed and sig == signal.SIGALRM:
		raise HarnessError('forked child timed out')
	return dict(killed=killed, signal=sig, info=info, exit=os.WEXITSTATUS(status) if os.WIFEXITED(status) else None)


# ---------------------------------------------------------------------------------------------
# recovery: examine a survivor file with the real loader

def examine(path):
	"""Runs in a forked child. Returns a plain description of what load_signatures makes of `path`."""
	import numpy as np
	from gambit.sigs.base import load_signatures
	try:
		sigs = load_signatures(path)
	except BaseException as e:
		return dict(outcome='refused', exc=type(e).__name__, msg=str(e)[:200])
	try:
		n = len(sigs)
		arrays = [np.array(sigs[i]) for i in range(n)]
		ids = sigs.ids
		ids_l = [x.item() if hasattr(x, 'item') else x for x in list(ids)]
		meta = sigs.meta
		out = dict(outcome='loaded', n=n, k=int(sigs.kmerspec.k), prefix=sigs.kmerspec.prefix_str, dtype=str(sigs.dtype),
		           arrays=[(str(a.dtype), a.tobytes()) for a in arrays], ids=ids_l, ids_kind=str(getattr(ids, 'dtype', type(ids).__name__)),
		           meta=dict(id=meta.id, name=meta.name, version=meta.version, id_attr=meta.id_attr, description=meta.description, extra=meta.extra))
		# slices must read too
		if n:
			sub = sigs[0:n]
			for i in range(n):
				if not np.array_equal(np.asarray(sub[i]), arrays[i]):
					return dict(outcome='accepted-unreadable', exc='SliceMismatch', msg=f'slice element {i} differs from element read')
		try:
			sigs.close()
		except Exception:
			pass
		return out
	except BaseException as e:
		return dict(outcome='accepted-unreadable', exc=type(e).__name__, msg=str(e)[:200])


def examine_forked(path):
	r = run_forked(examine, (path,), None, None)
	if r['killed'] or r['info'] is None:
		return dict(outcome='loader-crashed', signal=r['signal'])
	if not r['info']['ok']:
		return dict(outcome='loader-crashed', exc=r['info'].get('exc'), msg=r['info'].get('msg'))
	return r['info']['out']
