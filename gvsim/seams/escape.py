"""Anything that escapes the seams is noticed (DESIGN 3.4): real threads, forks or sub-processes started by the
code under test while a simulation is active are counted and flagged in the evidence
('uncontrolled_concurrency'); the oracle is still evaluated on the real result, but such a run's replay is not
guaranteed.  Threads the simulator itself starts (interleaved task bodies, pipe feeders, libgomp's team) are
exempt: they are started through `own_thread()` or from native code."""
import os
import subprocess
import threading

_installed = False
_ctx = None
_own = threading.local()


def install():
	global _installed
	if _installed:
		return
	_installed = True
	orig_start = threading.Thread.start
	orig_fork = os.fork
	orig_popen = subprocess.Popen.__init__

	def start(self, *a, **kw):
		if _ctx is not None and not getattr(self, '_gvsim_own', False) and not getattr(_own, 'active', False):
			_ctx.probe('uncontrolled_concurrency:thread')
		return orig_start(self, *a, **kw)

	def fork():
		if _ctx is not None and not getattr(_own, 'active', False):
			_ctx.probe('uncontrolled_concurrency:fork')
		return orig_fork()

	def popen(self, *a, **kw):
		if _ctx is not None and not getattr(_own, 'active', False):
			_ctx.probe('uncontrolled_concurrency:subprocess')
		return orig_popen(self, *a, **kw)
	threading.Thread.start = start
	os.fork = fork
	subprocess.Popen.__init__ = popen


def watch(ctx):
	global _ctx
	install()
	_ctx = ctx


def unwatch():
	global _ctx
	_ctx = None


def own_thread(*a, **kw):
	t = threading.Thread(*a, **kw)
	t._gvsim_own = True
	return t


class own:
	"""with own(): forks/threads started by the harness itself are not counted."""

	def __enter__(self):
		_own.active = True

	def __exit__(self, *a):
		_own.active = False
