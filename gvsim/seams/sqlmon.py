"""SQL monitor (seam S5): every statement that reaches a SQLAlchemy Engine bound to the monitored
database file is recorded and classified read / transaction-control / write."""
import os
import re

_installed = False
_target = None      # realpath of the monitored .gdb file
_log = []           # (class, statement head)

WRITE_RE = re.compile(r'^\s*(INSERT|UPDATE|DELETE|REPLACE|CREATE|DROP|ALTER|VACUUM|REINDEX|ATTACH|DETACH)\b', re.I)
# only PRAGMAs whose effect persists in the database file; connection-local settings (foreign_keys, query_only,
# cache_size, synchronous, busy_timeout ...) are not writes
PRAGMA_WRITE_RE = re.compile(r'^\s*PRAGMA\s+(\w+\.)?(journal_mode|user_version|application_id|schema_version|auto_vacuum|incremental_vacuum|encoding|page_size|wal_checkpoint|optimize|legacy_file_format)\s*(=|\(|$)', re.I)
TXN_RE = re.compile(r'^\s*(BEGIN|COMMIT|ROLLBACK|SAVEPOINT|RELEASE)\b', re.I)


def classify(stmt):
	if WRITE_RE.match(stmt) or PRAGMA_WRITE_RE.match(stmt):
		return 'write'
	if TXN_RE.match(stmt):
		return 'txn'
	return 'read'


def _before(conn, cursor, statement, parameters, context, executemany):
	if _target is None:
		return
	try:
		db = conn.engine.url.database
		if db is None or os.path.realpath(db) != _target:
			return
	except Exception:
		return
	_log.append((classify(statement), ' '.join(statement.split())[:120]))


def install():
	global _installed
	if _installed:
		return
	_installed = True
	from sqlalchemy import event
	from sqlalchemy.engine import Engine
	event.listen(Engine, 'before_cursor_execute', _before)


def watch(path):
	global _target
	install()
	_target = None if path is None else os.path.realpath(path)
	_log.clear()


def drain():
	out = list(_log)
	_log.clear()
	return out
