import os
import sys

sys.path.insert(0, os.path.dirname(os.path.dirname(os.path.abspath(__file__))))
# the directory of this script is sys.path[0]; drop it so 'engine' etc. are only importable as gvsim.*
if sys.path[1:2] and os.path.abspath(sys.path[1]) == os.path.dirname(os.path.abspath(__file__)):
	del sys.path[1]

from gvsim import worker  # noqa: E402

if __name__ == '__main__':
	sys.exit(worker.main())
