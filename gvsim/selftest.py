"""Self-tests other than determinism (which lives in launcher.py): sensitivity and stub fidelity.

sensitivity: a fixed list of small source mutations, each applied to a scratch copy of the tree under
test (under /var/tmp, removed afterwards) and each required to make its property's quick check print a
reproducing VIOLATION.  The unmutated copy must pass.  DESIGN section 7.
"""
import os
import re
import shutil
import subprocess
import sys
import time

from . import launcher

# (name, property, file relative to repo, anchor line (stripped), replacement lines relative to the anchor's indentation)
MUTANTS = [
	('c13-completion-order-gather', 'C13', 'src/gambit/sigs/calc.py',
	 "future_to_index = dict()", ["future_to_index = dict()", "done_n = 0"]),
	('c13-completion-order-gather', 'C13', 'src/gambit/sigs/calc.py',
	 "sigs[i] = future.result()", ["sigs[done_n] = future.result()", "done_n += 1"]),
	('c13-swallow-failure', 'C13', 'src/gambit/sigs/calc.py',
	 "sigs[i] = future.result()",
	 ["try:", "\tsigs[i] = future.result()", "except OSError:", "\tsigs[i] = np.empty(0, kspec.index_dtype)"]),
	('c13-shared-accumulator-between-threads', 'C13', 'src/gambit/sigs/calc.py',
	 "with seqfile.parse() as records:", ["if accumulator is None:", "\taccumulator = _ACCUMULATORS.setdefault(kspec.k, default_accumulator(kspec.k))", "\taccumulator.clear()", "with seqfile.parse() as records:"]),
	('c13-shared-accumulator-between-threads', 'C13', 'src/gambit/sigs/calc.py',
	 "def default_accumulator(k: int) -> KmerAccumulator:", ["_ACCUMULATORS = dict()", "", "", "def default_accumulator(k: int) -> KmerAccumulator:"]),
	('c05-chunk-out-slice', 'C05', 'src/gambit/metric.py',
	 "jaccarddist_array(query, ref_chunk, out=out[i, ref_slice])", ["jaccarddist_array(query, ref_chunk, out=out[i, :len(ref_chunk)])"]),
	('c05-mirror-wrong-triangle', 'C05', 'src/gambit/metric.py',
	 "out[cols, i] = out[i, cols]", ["out[cols, max(i - 1, 0)] = out[i, cols]"]),
	('c05-indices-applied-twice', 'C05', 'src/gambit/metric.py',
	 "ref_chunk = refs[idx]", ["ref_chunk = refs[idx]", "if ref_indices is not None and len(ref_chunk) > 2:", "\tref_chunk = ref_chunk[list(range(len(ref_chunk)))[::-1]]"]),
	('c05-condensed-offset-drift', 'C05', 'src/gambit/metric.py',
	 "next_out += ncol", ["next_out += ncol if i != 2 else ncol - 1"]),
	('c08-gz-stripped-after-fasta-suffix', 'C08', 'src/gambit/cli/common.py',
	 "filename = strip_extensions(filename, GZIP_EXTENSIONS)",
	 ["filename = strip_extensions(filename, FASTA_EXTENSIONS)", "return strip_extensions(filename, GZIP_EXTENSIONS)"]),
	('c08-labels-sorted', 'C08', 'src/gambit/cli/common.py',
	 "ids = [get_file_id(f, strip_dir, strip_ext) for f in paths_str]", ["ids = sorted(get_file_id(f, strip_dir, strip_ext) for f in paths_str)"]),
	('c08-chunk-boundary-slip', 'C08', 'src/gambit/metric.py',
	 "jaccarddist_array(query, ref_chunk, out=out[i, ref_slice])", ["jaccarddist_array(query, ref_chunk, out=out[i, ref_slice.start:ref_slice.start + len(ref_chunk)][::-1] if len(ref_chunk) == 3 else out[i, ref_slice])"]),
	('c09-unstable-sort', 'C09', 'src/gambit/query.py',
	 "closest = [GenomeMatch(db.genomes[i], dists[i]) for i in np.argsort(dists, kind='stable')[:params.report_closest]]",
	 ["closest = [GenomeMatch(db.genomes[i], dists[i]) for i in np.argsort(dists)[:params.report_closest]]"]),
	('c09-sort-descending-ties', 'C09', 'src/gambit/query.py',
	 "closest = [GenomeMatch(db.genomes[i], dists[i]) for i in np.argsort(dists, kind='stable')[:params.report_closest]]",
	 ["closest = [GenomeMatch(db.genomes[i], dists[i]) for i in (len(dists) - 1 - np.argsort(dists[::-1], kind='stable'))[:params.report_closest]]"]),
	('c09-sort-key-rounded', 'C09', 'src/gambit/query.py',
	 "closest = [GenomeMatch(db.genomes[i], dists[i]) for i in np.argsort(dists, kind='stable')[:params.report_closest]]",
	 ["closest = [GenomeMatch(db.genomes[i], dists[i]) for i in np.argsort(np.round(dists, 6), kind='stable')[:params.report_closest]]"]),
	('c16-header-sorted', 'C16', 'src/gambit/cli/dist.py',
	 "dump_dmat_csv(output, dmat, query_ids, ref_ids)  # TODO different output formats", ["dump_dmat_csv(output, dmat, query_ids, sorted(map(str, ref_ids)))"]),
	('c16-reference-files-in-completion-order', 'C16', 'src/gambit/sigs/calc.py',
	 "sigs[i] = future.result()", ["sigs[len(files) - 1 - i if len(files) == 3 else i] = future.result()"]),
	('c17-child-height-dropped', 'C17', 'src/gambit/cluster.py',
	 "right.branch_length = height - (0 if right_i < nleaves else link[right_i - nleaves, 2])", ["right.branch_length = height"]),
	('c17-labels-sorted', 'C17', 'src/gambit/cli/tree.py',
	 "tree = linkage_to_bio_tree(link, labels)", ["tree = linkage_to_bio_tree(link, sorted(map(str, labels)))"]),
	('c20-negative-index-in-place', 'C20', 'src/gambit/util/indexing.py',
	 "index = index.astype(np.intp)", ["index = index.astype(np.intp, copy=False)"]),
	('c20-slice-bounds-not-rebased', 'C20', 'src/gambit/sigs/base.py',
	 "bounds = self.bounds[start:(stop + 1)] - self.bounds[start]", ["bounds = self.bounds[start:(stop + 1)] - self.bounds[max(start - 1, 0)]"]),
	('c20-delete-last-removes-first', 'C20', 'src/gambit/sigs/base.py',
	 "del self._list[i]", ["if isinstance(i, int) and i == -1:", "\ti = 0", "del self._list[i]"]),
	('c18-plain-session-in-cli', 'C18', 'src/gambit/cli/common.py',
	 "self._Session = sessionmaker(self.engine, class_=ReadOnlySession)", ["self._Session = sessionmaker(self.engine)"]),
	('c18-flush-forwards', 'C18', 'src/gambit/db/sqla.py',
	 "# Make flush a no-op", ["return super().flush(*args, **kwargs)"]),
	('c18-commit-accepted', 'C18', 'src/gambit/db/sqla.py',
	 "raise TypeError('Session is read-only')", ["self.rollback()"]),
	('c18-commit-refused-only-when-dirty', 'C18', 'src/gambit/db/sqla.py',
	 "raise TypeError('Session is read-only')", ["if not self._is_clean():", "\traise TypeError('Session is read-only')", "super().commit()"]),
	('c18-sigfile-last-used-stamp', 'C18', 'src/gambit/sigs/hdf5.py',
	 "h5file = h5.File(path, **kw)", ["kw.setdefault('mode', 'a')", "h5file = h5.File(path, **kw)", "h5file.attrs['last_opened_by'] = 'gambit'"]),
	('c19-flush-after-presize', 'C19', 'src/gambit/sigs/hdf5.py',
	 "values = group.create_dataset('values', shape=int(bounds[-1]), dtype=signatures.dtype, **values_kw)",
	 ["values = group.create_dataset('values', shape=int(bounds[-1]), dtype=signatures.dtype, **values_kw)", "group.file.flush()"]),
	('c19-append-mode', 'C19', 'src/gambit/sigs/hdf5.py',
	 "with h5.File(path, 'w') as f:",
	 ["with h5.File(path, 'a') as f:", "\tfor name in list(f):", "\t\tdel f[name]"]),
]


def apply_edit(text, anchor, new_lines):
	"""Replace the first line whose stripped content equals `anchor`; returns None if absent."""
	lines = text.split('\n')
	for i, line in enumerate(lines):
		if line.strip() == anchor:
			indent = line[:len(line) - len(line.lstrip())]
			lines[i:i + 1] = [indent + nl for nl in new_lines]
			return '\n'.join(lines)
	return None


def _groups():
	out = {}
	for name, prop, path, old, new in MUTANTS:
		out.setdefault(name, (prop, []))[1].append((path, old, new))
	return out


def _scratch_copy():
	d = f'/var/tmp/gvsim-mut-{os.getpid()}'
	shutil.rmtree(d, ignore_errors=True)
	os.makedirs(d)
	shutil.copytree(os.path.join(launcher.repo_dir(), 'src'), os.path.join(d, 'src'),
	                ignore=shutil.ignore_patterns('__pycache__', '*.egg-info'))
	return d


def _run_check(prop, repo, extra_env=None):
	env = dict(os.environ, GAMBIT_VERIF_REPO=repo)
	env.update(extra_env or {})
	t0 = time.time()
	r = subprocess.run([os.path.join(launcher.VERIF, 'check'), prop, 'quick'], env=env, capture_output=True, text=True, cwd=launcher.VERIF)
	return r.returncode, r.stdout + r.stderr, time.time() - t0


def sensitivity(props_list, only=None):
	"""Runs against scratch copies; evidence/ and replays/ of the real tree are saved and restored."""
	bad = 0
	groups = _groups()
	ev_dir = os.path.join(launcher.VERIF, 'evidence')
	rp_dir = os.path.join(launcher.VERIF, 'replays')
	save = f'/var/tmp/gvsim-evsave-{os.getpid()}'
	shutil.rmtree(save, ignore_errors=True)
	os.makedirs(save)
	for d in (ev_dir, rp_dir):
		if os.path.isdir(d):
			shutil.copytree(d, os.path.join(save, os.path.basename(d)))
	try:
		done_clean = set()
		for name, (prop, edits) in groups.items():
			if prop not in props_list or (only and name not in only):
				continue
			repo = _scratch_copy()
			try:
				if prop not in done_clean:
					rc, out, dt = _run_check(prop, repo)
					ok = rc == 0 and 'VIOLATION' not in out
					print(f'[selftest sensitivity] {prop} unmutated copy: exit {rc} in {dt:.0f}s -> {"ok" if ok else "UNEXPECTED"}', flush=True)
					if not ok:
						print(out[-2000:])
						bad += 1
					done_clean.add(prop)
				applied = True
				for path, old, new in edits:
					p = os.path.join(repo, path)
					s2 = apply_edit(open(p).read(), old, new)
					if s2 is None:
						print(f'[selftest sensitivity] {name}: anchor line not found in {path} (tree changed?)')
						bad += 1
						applied = False
						continue
					open(p, 'w').write(s2)
				if not applied:
					continue
				rc, out, dt = _run_check(prop, repo)
				m = re.search(r'VIOLATION property=(\S+) replay=(\S+)', out)
				detected = rc == 1 and m is not None and m.group(1) == prop
				klass = ''
				replay_ok = False
				if detected:
					kl = re.search(r'VIOLATION[^\n]*\n\s+(\S+):', out)
					klass = kl.group(1) if kl else ''
					env = dict(os.environ, GAMBIT_VERIF_REPO=repo)
					r2 = subprocess.run([os.path.join(launcher.VERIF, 'check'), prop, '--replay', m.group(2)], env=env, capture_output=True, text=True, cwd=launcher.VERIF)
					replay_ok = r2.returncode == 1 and 'digest identical' in r2.stdout
				print(f'[selftest sensitivity] {name} ({prop}): exit {rc} in {dt:.0f}s detected={detected} class={klass} replay_reproduces={replay_ok}', flush=True)
				if not (detected and replay_ok):
					print(out[-1500:])
					bad += 1
			finally:
				shutil.rmtree(repo, ignore_errors=True)
	finally:
		for d in (ev_dir, rp_dir):
			shutil.rmtree(d, ignore_errors=True)
			src = os.path.join(save, os.path.basename(d))
			if os.path.isdir(src):
				shutil.copytree(src, d)
		shutil.rmtree(save, ignore_errors=True)
	return 0 if bad == 0 else 2


def fidelity(props_list):
	from . import fidelity as F
	return F.run(props_list)
