"""Shared plumbing for the command-level scenarios (C08, C09, C16, C17, C18): one command (or library
call) executed with the simulated pool, the OpenMP hand-out shim, short reads and the chunk-size knob
held by the simulator."""
import contextlib
import os
import random
import re

from .engine import HarnessError
from .seams import cli as cliseam
from .seams import executor as sx
from .seams import iosim
from .seams import omp

POLICIES = ['uniform', 'lifo', 'fifo', 'starve']


class Knobs:
	"""What the simulator decides for one command."""

	def __init__(self, ch, label, n_tasks_hint=6, with_chunk=True, nrefs=10, faults=False):
		self.policy = ch.pick(POLICIES, label + '.policy')
		self.starve = ch.int(0, max(0, n_tasks_hint - 1), label + '.starve') if self.policy == 'starve' else None
		self.machine = ch.int(1, 16, label + '.machine')
		self.tpol = ch.pick(omp.THREAD_POLICIES, label + '.tpol')
		self.opol = ch.pick(omp.ORDER_POLICIES, label + '.opol')
		self.omp_seed = ch.subseed(label + '.omp_seed')
		# at most one fault per command; most commands have none (the system must make progress between faults)
		self.fault = None
		if faults:
			self.fault = ch.weighted([(None, 17), ('die', 1), ('eio_transient', 1), ('eio', 1)], label + '.fault')
			if self.fault is not None:
				self.fault_target = ch.int(0, max(0, n_tasks_hint - 1), label + '.fault_target')
				self.fault_at = ch.int(1, 3, label + '.fault_at')
		self.chunksize = None
		if with_chunk:
			self.chunksize = ch.pick([1000, None, 'small'], label + '.chunk')
			if self.chunksize == 'small':
				self.chunksize = ch.int(1, max(1, nrefs + 2), label + '.cs')

	def describe(self):
		d = dict(policy=self.policy, machine=self.machine, tpol=self.tpol, opol=self.opol, chunksize=self.chunksize)
		if getattr(self, 'fault', None):
			d['fault'] = (self.fault, self.fault_target, self.fault_at)
		return d


@contextlib.contextmanager
def simulated(ctx, knobs, short_paths=None, short_seed=0, fault_paths=None):
	"""Activate S1 (pool), S2 (OpenMP hand-out) and S4 (short reads, read faults) for the duration of a block.
	fault_paths: the input files of this command, in input order (target of a drawn read fault)."""
	sx.install()
	iosim.install()
	sim = sx.Sim(ctx, machine_size=knobs.machine, policy=knobs.policy, starve=knobs.starve)
	plan = iosim.Plan(ctx)
	if short_paths:
		rng = random.Random(short_seed)
		for p in sorted(short_paths):
			plan.set(p, short=rng.randrange(2 ** 32))
	fault = getattr(knobs, 'fault', None)
	nf0 = sum(ctx.faults.values())
	if fault == 'die':
		sim.task_faults = {knobs.fault_target: 'die'}
	elif fault in ('eio', 'eio_transient') and fault_paths:
		fp = os.path.abspath(fault_paths[knobs.fault_target % len(fault_paths)])
		spec = dict(plan.files.get(fp, {}))
		spec.update(eio_at=knobs.fault_at, transient=(fault == 'eio_transient'))
		plan.files[fp] = spec
	sx.activate(sim)
	iosim.activate(plan)
	armed = omp.Armed(ctx, knobs.omp_seed, knobs.tpol, knobs.opol) if omp.available() else contextlib.nullcontext()
	holder = SimHandle(sim, None)
	try:
		with armed as a:
			holder.armed = a
			yield holder
	finally:
		iosim.deactivate()
		sx.deactivate()
		holder.fault_fired = sum(ctx.faults.values()) > nf0
	if omp.available():
		holder.omp_sig = a.sig
		holder.omp_stats = a.stats
		ctx.state(a.sig)


class SimHandle:
	def __init__(self, sim, armed):
		self.sim = sim
		self.armed = armed
		self.omp_sig = None
		self.omp_stats = None
		self.fault_fired = False


@contextlib.contextmanager
def chunk_knob(chunksize):
	"""Give the QueryParams that the query command constructs a drawn chunksize (the command exposes none;
	the default of 1000 can never split a small database)."""
	import gambit.cli.query as cq
	import gambit.query as gq
	real = gq.QueryParams
	if chunksize == 1000:
		yield
		return

	def factory(*a, **kw):
		kw.setdefault('chunksize', chunksize)
		return real(*a, **kw)
	old = cq.QueryParams
	cq.QueryParams = factory
	try:
		yield
	finally:
		cq.QueryParams = old


KNOB_RE = re.compile(r'^(chunk|batch|block)_?(size)?$')
KNOB_MODULES = ['gambit.metric', 'gambit.query', 'gambit.sigs.base', 'gambit.sigs.hdf5', 'gambit.sigs.calc', 'gambit.cluster',
                'gambit.cli.query', 'gambit.cli.dist', 'gambit.cli.tree', 'gambit.cli.signatures', 'gambit.cli.common']


def discover_knobs():
	"""Tuning knobs of the code under test: function parameters called chunksize / batch_size / block... whose
	default is None or an int.  By their documented meaning they change how work is cut up, never the result."""
	import importlib
	import inspect
	found = []
	for mn in KNOB_MODULES:
		try:
			mod = importlib.import_module(mn)
		except Exception:
			continue
		for name, obj in sorted(vars(mod).items()):
			fns = []
			if inspect.isfunction(obj) and obj.__module__ == mn:
				fns.append((name, obj))
			elif inspect.isclass(obj) and obj.__module__ == mn:
				for mname, m in sorted(vars(obj).items()):
					f = m.__func__ if isinstance(m, (classmethod, staticmethod)) else m
					if inspect.isfunction(f):
						fns.append((f'{name}.{mname}', f))
			for qn, f in fns:
				try:
					sig = inspect.signature(f)
				except (TypeError, ValueError):
					continue
				for pn, p in sig.parameters.items():
					if KNOB_RE.match(pn) and (p.default is None or (isinstance(p.default, int) and not isinstance(p.default, bool))):
						found.append((f'{mn}.{qn}', f, pn, p.kind == p.KEYWORD_ONLY))
	return found


@contextlib.contextmanager
def knob_defaults(ctx, ch, label, hi=8):
	"""Swarm over tuning knobs: per command, each discovered knob keeps its default or gets a small drawn one."""
	import inspect
	undo = []
	chosen = {}
	for qn, f, pn, kwonly in discover_knobs():
		v = ch.pick(['default', 'small', 'one'], f'{label}.knob:{qn}:{pn}')
		if v == 'default':
			continue
		val = 1 if v == 'one' else ch.int(2, hi, f'{label}.knobval:{qn}:{pn}')
		chosen[f'{qn}:{pn}'] = val
		if kwonly:
			old = dict(f.__kwdefaults__)
			undo.append((f, '__kwdefaults__', old))
			f.__kwdefaults__ = dict(old, **{pn: val})
		else:
			params = [p for p in inspect.signature(f).parameters.values() if p.kind in (p.POSITIONAL_ONLY, p.POSITIONAL_OR_KEYWORD)]
			with_def = [p.name for p in params if p.default is not p.empty]
			old = f.__defaults__
			idx = with_def.index(pn)
			new = list(old)
			new[idx] = val
			undo.append((f, '__defaults__', old))
			f.__defaults__ = tuple(new)
	if chosen:
		ctx.probe('tuning_knob_default_randomised')
	try:
		yield chosen
	finally:
		for f, attr, old in reversed(undo):
			setattr(f, attr, old)


@contextlib.contextmanager
def in_dir(path):
	if path is None:
		yield
		return
	old = os.getcwd()
	os.chdir(path)
	try:
		yield
	finally:
		os.chdir(old)


def run_cli(ctx, args, knobs, short_paths=None, short_seed=0, chunk=False, cwd=None, ch=None, label=None, fault_paths=None):
	"""Run one gambit command under the simulator. Returns (cli.Result, SimHandle)."""
	with simulated(ctx, knobs, short_paths, short_seed, fault_paths) as h:
		with (chunk_knob(knobs.chunksize) if chunk else contextlib.nullcontext()), in_dir(cwd), \
				(knob_defaults(ctx, ch, label) if ch is not None else contextlib.nullcontext()) as kd:
			res = cliseam.run(args)
	h.knob_defaults = kd
	ctx.tick()
	ctx.stats['commands'] += 1
	return res, h
