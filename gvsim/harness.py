"""Shared plumbing for the command-level scenarios (C08, C09, C16, C17, C18): one command (or library
call) executed with the simulated pool, the OpenMP hand-out shim, short reads and the chunk-size knob
held by the simulator."""
import contextlib
import random

from .engine import HarnessError
from .seams import cli as cliseam
from .seams import executor as sx
from .seams import iosim
from .seams import omp

POLICIES = ['uniform', 'lifo', 'fifo', 'starve']


class Knobs:
	"""What the simulator decides for one command."""

	def __init__(self, ch, label, n_tasks_hint=6, with_chunk=True, nrefs=10):
		self.policy = ch.pick(POLICIES, label + '.policy')
		self.starve = ch.int(0, max(0, n_tasks_hint - 1), label + '.starve') if self.policy == 'starve' else None
		self.machine = ch.int(1, 16, label + '.machine')
		self.tpol = ch.pick(omp.THREAD_POLICIES, label + '.tpol')
		self.opol = ch.pick(omp.ORDER_POLICIES, label + '.opol')
		self.omp_seed = ch.subseed(label + '.omp_seed')
		self.chunksize = None
		if with_chunk:
			self.chunksize = ch.pick([1000, None, 'small'], label + '.chunk')
			if self.chunksize == 'small':
				self.chunksize = ch.int(1, max(1, nrefs + 2), label + '.cs')

	def describe(self):
		return dict(policy=self.policy, machine=self.machine, tpol=self.tpol, opol=self.opol, chunksize=self.chunksize)


@contextlib.contextmanager
def simulated(ctx, knobs, short_paths=None, short_seed=0):
	"""Activate S1 (pool), S2 (OpenMP hand-out) and S4 (short reads) for the duration of a block."""
	sx.install()
	iosim.install()
	sim = sx.Sim(ctx, machine_size=knobs.machine, policy=knobs.policy, starve=knobs.starve)
	plan = iosim.Plan(ctx)
	if short_paths:
		rng = random.Random(short_seed)
		for p in sorted(short_paths):
			plan.set(p, short=rng.randrange(2 ** 32))
	sx.activate(sim)
	iosim.activate(plan)
	armed = omp.Armed(ctx, knobs.omp_seed, knobs.tpol, knobs.opol) if omp.available() else contextlib.nullcontext()
	try:
		with armed as a:
			holder = SimHandle(sim, a)
			yield holder
	finally:
		iosim.deactivate()
		sx.deactivate()
	if omp.available():
		holder.omp_sig = a.sig
		holder.omp_stats = a.stats
		ctx.state(a.sig)


class SimHandle:
	def __init__(self, sim, armed):
		self.sim = sim
		self.armed = armed
		self.omp_sig = None
		self.omp_stats = None


@contextlib.contextmanager
def chunk_knob(chunksize):
	"""Give the QueryParams that the query command constructs a drawn chunksize (the command exposes none;
	the default of 1000 can never split a small database)."""
	import gambit.cli.query as cq
	import gambit.query as gq
	real = gq.QueryParams
	if chunksize == 1000:
		yield
		return

	def factory(*a, **kw):
		kw.setdefault('chunksize', chunksize)
		return real(*a, **kw)
	old = cq.QueryParams
	cq.QueryParams = factory
	try:
		yield
	finally:
		cq.QueryParams = old


def run_cli(ctx, args, knobs, short_paths=None, short_seed=0, chunk=False):
	"""Run one gambit command under the simulator. Returns (cli.Result, SimHandle)."""
	with simulated(ctx, knobs, short_paths, short_seed) as h:
		with (chunk_knob(knobs.chunksize) if chunk else contextlib.nullcontext()):
			res = cliseam.run(args)
	ctx.tick()
	ctx.stats['commands'] += 1
	return res, h
