"""Average-linkage (UPGMA) clustering that branches on every tie and returns the set of admissible
cophenetic matrices (each as a tuple of tuples of merge heights)."""

TIE_EPS = 1e-12


def admissible_cophenetics(dmat, cap=500):
	"""dmat: n x n symmetric list-of-lists of floats. Returns (list of cophenetic matrices, complete?)."""
	n = len(dmat)
	results = []
	seen = set()
	budget = [cap]

	def rec(clusters, D, coph):
		# clusters: list of (members tuple); D: dict (i, j) -> distance with i < j indices into clusters
		if budget[0] <= 0:
			return
		if len(clusters) == 1:
			key = tuple(tuple(round(x, 9) for x in row) for row in coph)
			if key not in seen:
				seen.add(key)
				results.append([row[:] for row in coph])
			budget[0] -= 1
			return
		m = min(D.values())
		pairs = [p for p, v in D.items() if v - m <= TIE_EPS]
		pairs.sort()
		for (i, j) in pairs:
			if budget[0] <= 0:
				return
			h = D[(i, j)]
			ci, cj = clusters[i], clusters[j]
			coph2 = [row[:] for row in coph]
			for a in ci:
				for b in cj:
					coph2[a][b] = coph2[b][a] = h
			new_clusters = [c for k, c in enumerate(clusters) if k not in (i, j)] + [ci + cj]
			old_idx = [k for k in range(len(clusters)) if k not in (i, j)]
			D2 = {}
			for x in range(len(old_idx)):
				for y in range(x + 1, len(old_idx)):
					a, b = old_idx[x], old_idx[y]
					D2[(x, y)] = D[(min(a, b), max(a, b))]
			new = len(old_idx)
			for x, k in enumerate(old_idx):
				dki = D[(min(k, i), max(k, i))]
				dkj = D[(min(k, j), max(k, j))]
				D2[(x, new)] = (len(ci) * dki + len(cj) * dkj) / (len(ci) + len(cj))
			rec(new_clusters, D2, coph2)

	clusters = [(i,) for i in range(n)]
	D = {(i, j): float(dmat[i][j]) for i in range(n) for j in range(i + 1, n)}
	coph = [[0.0] * n for _ in range(n)]
	rec(clusters, D, coph)
	return results, budget[0] > 0
