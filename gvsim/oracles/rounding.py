"""Four-decimal rounding model for the distance CSV: which texts are acceptable for a cell."""
from decimal import Decimal, ROUND_FLOOR
from fractions import Fraction

import numpy as np


def _round_candidates(fr, places=4):
	"""Texts of fr (a Fraction >= 0) rounded to `places` decimals; both neighbours on an exact tie."""
	scale = 10 ** places
	x = fr * scale
	lo = x.numerator // x.denominator
	rem = x - lo
	if rem * 2 < 1:
		c = [lo]
	elif rem * 2 > 1:
		c = [lo + 1]
	else:
		c = [lo, lo + 1]
	return {f'{v // scale}.{v % scale:0{places}d}' for v in c}


def acceptable_texts(a, b, f32_value):
	"""a, b: the two signatures (integer arrays). f32_value: what the two-signature function returns.

	Accepted: the float32 value (its exact binary value) rounded to four decimals, and the exact ratio
	|A xor B| / |A or B| rounded to four decimals; on an exact tie either neighbour."""
	sa, sb = set(int(x) for x in a), set(int(x) for x in b)
	u = len(sa | sb)
	exact = Fraction(len(sa ^ sb), u) if u else Fraction(0)
	out = set(_round_candidates(exact))
	out |= _round_candidates(Fraction(float(np.float32(f32_value))))
	return out
