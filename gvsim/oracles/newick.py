"""A small independent Newick reader (no Biopython): returns nested nodes."""


class Node:
	__slots__ = ('name', 'length', 'children')

	def __init__(self):
		self.name = None
		self.length = None
		self.children = []

	def leaves(self):
		if not self.children:
			return [self]
		out = []
		for c in self.children:
			out.extend(c.leaves())
		return out


class NewickError(ValueError):
	pass


def parse(text):
	s = text.strip()
	if not s.endswith(';'):
		raise NewickError('missing terminating semicolon')
	pos = 0

	def peek():
		return s[pos] if pos < len(s) else ''

	def label():
		nonlocal pos
		if peek() == "'":
			pos += 1
			out = []
			while True:
				if pos >= len(s):
					raise NewickError('unterminated quoted label')
				if s[pos] == "'":
					if pos + 1 < len(s) and s[pos + 1] == "'":
						out.append("'")
						pos += 2
						continue
					pos += 1
					break
				out.append(s[pos])
				pos += 1
			return ''.join(out)
		start = pos
		while pos < len(s) and s[pos] not in '(),:;':
			pos += 1
		return s[start:pos].strip().replace('_', '_')

	def node():
		nonlocal pos
		n = Node()
		if peek() == '(':
			pos += 1
			while True:
				n.children.append(node())
				if peek() == ',':
					pos += 1
					continue
				if peek() == ')':
					pos += 1
					break
				raise NewickError(f'unexpected {peek()!r} at {pos}')
		lab = label()
		n.name = lab if lab != '' else None
		if peek() == ':':
			pos += 1
			start = pos
			while pos < len(s) and s[pos] not in '(),;':
				pos += 1
			try:
				n.length = float(s[start:pos])
			except ValueError:
				raise NewickError(f'bad branch length {s[start:pos]!r}')
		return n

	root = node()
	if peek() != ';' or pos != len(s) - 1:
		raise NewickError(f'trailing text at {pos}')
	return root
