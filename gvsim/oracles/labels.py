"""Label model (DESIGN appendix A.5): basename; strip one '.gz'; strip one FASTA suffix."""
import os

FASTA_SUFFIXES = ['.fasta', '.fna', '.ffn', '.frn', '.fa']


def _strip_one(name, suffixes):
	for s in suffixes:
		if name.endswith(s):
			return name[:-len(s)]
	return name


def label(path_text):
	return _strip_one(_strip_one(os.path.basename(path_text), ['.gz']), FASTA_SUFFIXES)
