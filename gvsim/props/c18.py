"""C18 - using a reference database never modifies it.

System: a generated database directory and a HISTORY of operations against it (real commands
in-process, library calls, session abuse, failing commands, commands interrupted at the k-th line
event, commands SIGKILLed at the k-th line event in a child forked from a zygote), with the byte
content of both database files, every SQL statement reaching the database and the behaviour of the
default session monitored after every operation.  DESIGN 4.7.
"""
import gc
import hashlib
import os
import random

import numpy as np

from ..engine import HarnessError, blob_hash
from ..harness import Knobs, run_cli, simulated
from ..seams import cli as cliseam
from ..seams import executor as sx
from ..seams import omp
from ..seams import sqlmon
from ..seams import zygote
from ..seams.interrupt import LineTrigger
from ..worlds import queries as Q
from ..worlds import refdb as R
from .c08 import draw_kspec
from .c19 import NullCtx

PROP = 'C18'
LEVEL = 'exploration'
RUNS = {'quick': 1200, 'thorough': 18000}

RULE = ('runs generated from the seed, one history per run: a database world (3-15 genomes) and a query pool, then 1-10 operations (thorough up to 25) drawn from query (all channels/formats/strict/-c), '
        'dist --use-db and other dist forms, signatures info -d, signatures create --db-params, tree, library calls (load_from_dir, load, load_genomeset, query(), taxonomy traversal, archive reader, '
        'in-place modification of returned signature arrays), session abuse on the default session obtained four ways (modify/add/delete, flush, autoflushing query, commit, sessionmaker.begin block), '
        'failing commands (missing input, bad options, foreign signature file, corrupt gzip, unwritable output), a command interrupted by KeyboardInterrupt at line event k, a command SIGKILLed at line event k. '
        'After every operation: sha-256 of the .gdb and .gs files, SQL statements that reached the database, whether commit() raised. '
        'A case is the sequence of operation kinds; non-trivial = length>=2 and contains a session-abuse, failing, interrupted or killed step. Further drawn dimensions: a quarter of the databases in WAL journal mode, rollback/close and direct DML in the middle of session abuse, a writable or plain-class session maker requested in four forms (absolute or relative path) and used for reading, commit() on the untouched session and straight after direct DML, commands naming the database signature file directly.')
STATES_MEASURE = 'distinct history prefixes (sequences of operation kinds)'

REAL = ['all gambit commands and library entry points used as operations', 'SQLAlchemy + SQLite + h5py/libhdf5 on real files in scratch space', 'ReadOnlySession / file_sessionmaker / CLIContext']
STUB = ['worker pool (gvsim.seams.executor)', 'OpenMP dispenser in in-process commands (native/gompsim.c)', 'interrupt/kill delivery: sys.settrace line counter in gambit.* frames (gvsim.seams.interrupt)']
ASSUMPTIONS = [
	'interrupt and kill points are Python line events in gambit frames, not instructions inside NumPy/h5py/SQLite calls',
	'only bytes of the two database files and the behaviour of sessions the library hands out by default are judged; mtime, open mode and side files are recorded only',
	'a session explicitly requested as writable (readonly=False) is outside the statement and not generated',
]


def envs(tier):
	return [dict(preload=['gompsim.so'], env={'OMP_WAIT_POLICY': 'PASSIVE', 'GOMP_SPINCOUNT': '0', 'OMP_DYNAMIC': 'FALSE'})]


def worker_init(args):
	# everything a killed command needs is imported before the zygote is forked; no OpenMP region has run yet
	import gambit.cli  # noqa
	import gambit.db  # noqa
	import gambit.results  # noqa
	import h5py  # noqa
	sx.install()
	zygote.start()
	_warm_up()


def _warm_up():
	"""Line-event counts in gambit frames depend a little on what the process has executed before: CPython 3.12
	traces a code object slightly differently the first time, and libraries cache dispatch decisions (cattrs hook
	factories, singledispatch), so a lambda in gambit.util.json runs only on first use. Every worker therefore
	executes a few fixed histories - under the tracer, never judged - before its first real run, so that the k-th
	line event is the same place in every process."""
	from .. import engine
	root = engine.scratch_root()
	for r in range(2):
		try:
			engine.execute(_warm_scenario, PROP, 987654321, r, 'quick', root=root)
		except Exception:
			pass


def _warm_scenario(ctx):
	# a history that visits every operation kind once, every command traced with a trigger that never fires
	ch = ctx.ch
	kspec = draw_kspec(ch, default_every=15)
	rng = random.Random(ch.subseed('refworld'))
	world = R.build(ctx, rng, kspec, 4)
	pool = Q.build(ctx, random.Random(ch.subseed('pool')), world, 3)
	omp.set_threads(2)
	mon = Monitor(ctx, world)
	archive = []
	for c in range(12):
		L = f'w{c}'
		ck, args = _cli_ops(ctx, ch, L, world, pool, c)
		with LineTrigger(10 ** 9, 'interrupt'):
			res, _ = run_cli(ctx, args, Knobs(ch, L, with_chunk=True, nrefs=4), chunk=True)
		if ck == 'query' and '-f' in args and args[args.index('-f') + 1] == 'archive' and res.status == 0:
			archive.append(args[args.index('-o') + 1])
		fk, fargs = _failing(ctx, ch, L + 'f', world, pool, c)
		with LineTrigger(10 ** 9, 'interrupt'):
			run_cli(ctx, fargs, Knobs(ch, L + 'f', with_chunk=False))
		try:
			_library_op(ctx, ch, L + 'l', world, pool, archive)
		except Exception:
			pass
		try:
			_session_abuse(ctx, ch, L + 's', world, mon, [])
		except Exception:
			pass
	sqlmon.watch(None)


def worker_exit():
	zygote.stop()


def killed_command(args, k, cwd=None):
	"""Runs in a grandchild of the zygote: the command is SIGKILLed at line event k (if it gets that far)."""
	sx.install()
	sim = sx.Sim(NullCtx(), machine_size=2, policy='fifo')
	sx.activate(sim)
	try:
		with LineTrigger(k, 'kill') as t:
			res = cliseam.run(args, collect=False)
	finally:
		sx.deactivate()
	return dict(status=res.status, events=t.n)


def _sha(path):
	with open(path, 'rb') as f:
		return hashlib.sha256(f.read()).hexdigest()


class Monitor:
	def __init__(self, ctx, world):
		self.ctx = ctx
		self.world = world
		self.h_gdb = _sha(world.gdb)
		self.h_gs = _sha(world.gs)
		self.size = (os.path.getsize(world.gdb), os.path.getsize(world.gs))
		sqlmon.watch(world.gdb)

	def after(self, opdesc, history):
		gc.collect()
		stmts = sqlmon.drain()
		writes = [s for c, s in stmts if c == 'write']
		self.ctx.stats['sql_statements_seen'] += len(stmts)
		hist = ' > '.join(history[-6:])
		if writes:
			self.ctx.violation('C18.flushed', f'{opdesc}: a write statement reached the database: {writes[0][:60]}', detail=f'history {hist}; statements {writes[:5]}')
		for path, h0, name in ((self.world.gdb, self.h_gdb, 'genome file'), (self.world.gs, self.h_gs, 'signature file')):
			if not os.path.exists(path):
				self.ctx.violation('C18.bytes-changed', f'{opdesc}: the {name} disappeared', detail=f'history {hist}')
			if _sha(path) != h0:
				self.ctx.violation('C18.bytes-changed', f'{opdesc}: the {name} was modified', detail=f'history {hist}; size {os.path.getsize(path)}')
		side = sorted(f for f in os.listdir(self.world.dir) if f not in ('ref.gdb', 'ref.gs'))
		if side:
			self.ctx.probe('side_file_seen')


def _cli_ops(ctx, ch, L, world, pool, c):
	"""Draw one read-side command. Returns (kind, args)."""
	kind = ch.pick(['query', 'dist_usedb', 'sig_info', 'dist', 'sig_create', 'tree', 'query_sig', 'sig_info_file', 'dist_rs_dbfile', 'tree_dbfile'], L + '.cmd')
	npool = len(pool.genomes)
	out = os.path.join(ctx.scratch, f'op-{c}.out')
	def some(n_lo=1, n_hi=4):
		n = ch.int(n_lo, n_hi, L + '.n')
		return [pool.genomes[ch.int(0, npool - 1, f'{L}.g{i}')][ch.pick(['plain', 'gz'], f'{L}.f{i}')] for i in range(n)]
	cores = ch.pick([None, 1, 2, 4], L + '.cores')
	cargs = [] if cores is None else ['-c', str(cores)]
	if kind == 'query':
		args = ['-d', world.dir, 'query', '-o', out, '-f', ch.pick(['csv', 'json', 'archive'], L + '.fmt'), '--no-progress'] + (['--strict'] if ch.flip(.3, L + '.strict') else []) + cargs + some()
	elif kind == 'query_sig':
		args = ['-d', world.dir, 'query', '-o', out, '-f', ch.pick(['csv', 'json', 'archive'], L + '.fmt'), '--no-progress', '-s', pool.sigfile] + cargs
	elif kind == 'dist_usedb':
		args = ['-d', world.dir, 'dist', '-o', out, '--use-db', '--no-progress'] + cargs
		for p in some(1, 3):
			args += ['-q', p]
	elif kind == 'dist':
		args = ['-d', world.dir, 'dist', '-o', out, '--no-progress', '--qs', pool.sigfile, '--square'] + cargs
	elif kind == 'sig_info':
		args = ['-d', world.dir, 'signatures', 'info', '-d'] + ch.pick([[], ['--json'], ['--ids'], ['--json', '--pretty']], L + '.info')
	elif kind == 'sig_info_file':
		# the database's signature file named directly, as an ordinary signature file
		args = ['signatures', 'info', world.gs] + ch.pick([[], ['--json'], ['--ids']], L + '.info')
	elif kind == 'dist_rs_dbfile':
		args = ['dist', '-o', out, '--no-progress', '--qs', pool.sigfile, '--rs', world.gs] + cargs
	elif kind == 'tree_dbfile':
		args = ['tree', '--no-progress', '-s', world.gs] + cargs
	elif kind == 'sig_create':
		args = ['-d', world.dir, 'signatures', 'create', '-o', out + '.gs', '--db-params', '--no-progress'] + cargs + some(1, 3)
	else:
		args = ['-d', world.dir, 'tree', '--no-progress', '-k', str(world.kspec.k), '-p', world.kspec.prefix_str] + cargs + some(2, 4)
	return kind, args


def _failing(ctx, ch, L, world, pool, c):
	kind = ch.pick(['missing_input', 'bad_options', 'foreign_sigfile', 'corrupt_gzip', 'unwritable_output'], L + '.fail')
	out = os.path.join(ctx.scratch, f'fail-{c}.out')
	g = pool.genomes[0]['plain']
	if kind == 'missing_input':
		args = ['-d', world.dir, 'query', '-o', out, '--no-progress', os.path.join(ctx.scratch, 'does-not-exist.fasta')]
	elif kind == 'bad_options':
		args = ['-d', world.dir, 'query', '-o', out, '--no-progress', '-s', pool.sigfile, g]
	elif kind == 'foreign_sigfile':
		from gambit.kmers import KmerSpec
		from gambit.sigs.base import SignatureArray, AnnotatedSignatures, dump_signatures
		fp = os.path.join(ctx.scratch, 'foreign.gs')
		if not os.path.exists(fp):
			ks = KmerSpec(world.kspec.k + 1, 'GGC')
			dump_signatures(fp, AnnotatedSignatures(SignatureArray([np.arange(5, dtype=ks.index_dtype)], ks), np.array(['f0'], dtype=object)))
		args = ['-d', world.dir, 'query', '-o', out, '--no-progress', '-s', fp]
	elif kind == 'corrupt_gzip':
		args = ['-d', world.dir, 'query', '-o', out, '--no-progress', g, pool.broken]
	else:
		args = ['-d', world.dir, 'query', '-o', os.path.join(ctx.scratch, 'no', 'such', 'dir', 'x.csv'), '--no-progress', g]
	return kind, args


def _get_session(route, world):
	"""The default session, obtained the four ways the library hands one out. Returns (session, keepalive)."""
	from gambit.db import ReferenceDatabase, load_genomeset
	from gambit.db.sqla import file_sessionmaker
	if route == 'file_sessionmaker':
		return file_sessionmaker(world.gdb)(), None
	if route == 'load_genomeset':
		s, gset = load_genomeset(world.gdb)
		return s, gset
	if route == 'ReferenceDatabase.session':
		db = ReferenceDatabase.load_from_dir(world.dir)
		return db.session, db
	import click
	from gambit.cli import cli
	from gambit.cli.common import CLIContext
	cctx = click.Context(cli, info_name='gambit')
	cctx.params = {'db_path': world.dir}
	cc = CLIContext(cctx)
	return cc.Session(), cc


def _session_abuse(ctx, ch, L, world, mon, history):
	from gambit.db import Genome, AnnotatedGenome, Taxon
	route = ch.pick(['file_sessionmaker', 'load_genomeset', 'ReferenceDatabase.session', 'CLIContext.Session'], L + '.route')
	change = ch.pick(['modify_taxon', 'add_genome', 'delete_annotation', 'modify_genome'], L + '.change')
	s, keep = _get_session(route, world)
	desc = f'session abuse ({route}, {change})'
	def modify():
		if change == 'modify_taxon':
			t = s.query(Taxon).first()
			if t is not None:
				t.name = t.name + ' (edited)'
				t.distance_threshold = 0.123
		elif change == 'add_genome':
			s.add(Genome(key=f'gvsim/new{len(s.new)}', description='added through the default session'))
		elif change == 'delete_annotation':
			a = s.query(AnnotatedGenome).first()
			if a is not None:
				s.delete(a)
		else:
			g = s.query(Genome).first()
			if g is not None:
				g.description = 'edited'
	try:
		if ch.int(0, 3, L + '.commit_clean') == 0:
			# the refusal does not depend on there being anything pending
			try:
				s.commit()
			except Exception:
				ctx.probe('commit_refused_clean_session')
			else:
				mon.after(desc + ' commit() on the untouched session', history)
				ctx.violation('C18.commit-accepted', f'{desc}: commit() on the untouched default session did not raise', detail=f'session class {type(s).__name__}')
		modify()
		steps = ['flush', 'autoflush_query', 'commit', 'begin_block', 'rollback_then_modify', 'close_then_modify', 'direct_dml']
		n = ch.int(1, 6, L + '.nsteps')
		for j in range(n):
			st = ch.pick(steps, f'{L}.st{j}')
			if st == 'flush':
				try:
					s.flush()
				except Exception:
					pass          # refusing loudly is fine; what must not happen is a write reaching the file
			elif st == 'autoflush_query':
				try:
					s.query(Genome).count()
					s.query(Taxon).filter(Taxon.name.like('%edited%')).all()
				except Exception:
					pass
			elif st == 'commit':
				try:
					s.commit()
				except Exception:
					ctx.probe('commit_refused')
				else:
					mon.after(desc + ' commit()', history)   # a write may already be on disk: report that first
					ctx.violation('C18.commit-accepted', f'{desc}: commit() on the default session did not raise', detail=f'session class {type(s).__name__}')
			elif st == 'direct_dml':
				# statements sent straight through the session (Query.update / bulk save / execute): they are not a flush of
				# pending changes and do reach SQLite inside the session's transaction - which is never committed. Only the
				# bytes are judged for this step, after the transaction has been rolled back.
				try:
					how = ch.pick(['query_update', 'bulk_save', 'execute_update'], f'{L}.dml{j}')
					if how == 'query_update':
						s.query(Taxon).filter(Taxon.rank == 'species').update({'description': 'bulk edited'}, synchronize_session=False)
					elif how == 'bulk_save':
						s.bulk_save_objects([Genome(key=f'gvsim/bulk{j}', description='bulk')])
					else:
						from sqlalchemy import text
						s.execute(text("UPDATE genomes SET description = 'raw edit' WHERE id = 1"))
				except Exception:
					pass
				if ch.int(0, 2, f'{L}.dmlc{j}') == 0:
					# statements already inside the transaction and nothing pending in the unit of work: commit must still refuse
					try:
						s.commit()
					except Exception:
						ctx.probe('commit_refused_after_direct_dml')
					else:
						mon.after(desc + ' commit() after direct DML', history)
						ctx.violation('C18.commit-accepted', f'{desc}: commit() after direct DML through the default session did not raise', detail=f'session class {type(s).__name__}')
				try:
					s.rollback()
				except Exception:
					pass
				sqlmon.drain()
				ctx.probe('direct_dml_through_default_session')
			elif st in ('rollback_then_modify', 'close_then_modify'):
				# connection turnover: whatever made the session read-only must survive a rollback / close
				try:
					s.rollback() if st.startswith('rollback') else s.close()
				except Exception:
					pass
				try:
					modify()
				except Exception:
					pass
			else:
				try:
					with s.begin_nested():
						pass
				except Exception:
					pass
				try:
					s.get_transaction() and s.get_transaction().commit()
				except Exception:
					ctx.probe('transaction_commit_refused')
			mon.after(f'{desc} step {st}', history)
	finally:
		try:
			s.rollback()
		except Exception:
			pass
		try:
			s.close()
		except Exception:
			pass
		try:
			bind = s.get_bind()
			bind.dispose()
		except Exception:
			pass
	del keep
	return desc


def _library_op(ctx, ch, L, world, pool, archive_files):
	from gambit.db import ReferenceDatabase, load_genomeset
	from gambit.query import query, QueryParams
	from gambit.results import ResultsArchiveReader
	kind = ch.pick(['load_query', 'load_files', 'traverse', 'archive_read', 'mutate_returned_arrays', 'writable_session_used_for_reading'], L + '.lib')
	if kind == 'archive_read' and not archive_files:
		kind = 'load_query'
	knobs = Knobs(ch, L, with_chunk=True, nrefs=len(world.genomes))
	with simulated(ctx, knobs):
		if kind == 'load_query':
			db = ReferenceDatabase.load_from_dir(world.dir)
			res = query(db, [g['sig'] for g in pool.genomes], QueryParams(chunksize=knobs.chunksize, classify_strict=ch.flip(.3, L + '.strict')))
			len(res.items)
		elif kind == 'load_files':
			db = ReferenceDatabase.load(world.gdb, world.gs)
			[g.taxon.name for g in db.genomes[:5]]
			np.asarray(db.signatures[0])
		elif kind == 'traverse':
			s, gset = load_genomeset(world.gdb)
			for root in gset.root_taxa():
				for t in root.traverse():
					list(t.genomes)
					t.lineage()
			s.close()
		elif kind == 'writable_session_used_for_reading':
			# an explicitly writable session is the caller's business - but here it only reads, and the
			# sessions the library hands out by default afterwards must be as read-only as before
			from gambit.db import Genome
			from gambit.db.sqla import file_sessionmaker
			from sqlalchemy.orm import Session as PlainSession
			how = ch.pick(['readonly=False', 'cls=Session', 'cls=Session, readonly=False', 'readonly=False, autoflush=False'], L + '.wsm')
			kw = dict({'readonly=False': dict(readonly=False), 'cls=Session': dict(cls=PlainSession),
			           'cls=Session, readonly=False': dict(cls=PlainSession, readonly=False),
			           'readonly=False, autoflush=False': dict(readonly=False, autoflush=False)}[how])
			path = world.gdb if ch.flip(0.5, L + '.wsm_abs') else os.path.relpath(world.gdb)
			ws = file_sessionmaker(path, **kw)()
			ws.query(Genome).count()
			ws.close()
			ws.get_bind().dispose()
		elif kind == 'archive_read':
			db = ReferenceDatabase.load_from_dir(world.dir)
			ResultsArchiveReader(db.session).read(archive_files[-1])
		else:
			db = ReferenceDatabase.load_from_dir(world.dir)
			sigs = db.signatures
			try:
				a = sigs[0]
				if len(a):
					a += 1
				blk = sigs[0:len(sigs)]
				blk.values[...] = 0
				blk.bounds[...] = 0
				v = sigs.values
				if isinstance(v, np.ndarray):
					v[...] = 0
			except (ValueError, TypeError):
				ctx.probe('returned_arrays_read_only')
			del sigs
		db = None
	return 'library ' + kind


def scenario(ctx):
	ch = ctx.ch
	if not omp.available():
		raise HarnessError('C18 needs the gompsim shim preloaded')
	kspec = draw_kspec(ch, default_every=15)
	rng = random.Random(ch.subseed('refworld'))
	world = R.build(ctx, rng, kspec, ch.int(3, 15, 'n_ref'))
	pool = Q.build(ctx, random.Random(ch.subseed('pool')), world, ch.int(2, 5, 'n_pool'))
	ctx.log('world', k=kspec.k, prefix=kspec.prefix_str, n_ref=len(world.genomes), id_attr=world.id_attr, gs=blob_hash(open(world.gs, 'rb').read()))
	if ch.flip(0.25, 'wal_mode'):
		# a genome database distributed in WAL journal mode (legal; the mode is stored in the file header)
		import sqlite3
		con = sqlite3.connect(world.gdb)
		con.execute('PRAGMA journal_mode=WAL')
		con.commit()
		con.close()
		ctx.probe('wal_mode_database')
	omp.set_threads(ch.int(1, 8, 'initial_threads'))
	mon = Monitor(ctx, world)
	n_ops = ch.int(1, 25 if ctx.tier == 'thorough' else 10, 'n_ops')
	history = []
	archive_files = []
	all_paths = [g['plain'] for g in pool.genomes] + [g['gz'] for g in pool.genomes]
	for c in range(n_ops):
		L = f'o{c}'
		kind = ch.weighted([('command', 5), ('session_abuse', 4), ('library', 3), ('failing', 2), ('interrupted', 2), ('killed', 2)], L + '.kind')
		ctx.tick()
		if kind == 'command':
			ck, args = _cli_ops(ctx, ch, L, world, pool, c)
			knobs = Knobs(ch, L, with_chunk=True, nrefs=len(world.genomes))
			res, h = run_cli(ctx, args, knobs, short_paths=all_paths, short_seed=ch.subseed(L + '.short'), chunk=True)
			desc = f'command {ck}'
			ctx.log('op', op=kind, cmd=ck, status=res.status)
			if ck == 'query' and '-f' in args and args[args.index('-f') + 1] == 'archive' and res.status == 0:
				archive_files.append(args[args.index('-o') + 1])
		elif kind == 'failing':
			fk, args = _failing(ctx, ch, L, world, pool, c)
			knobs = Knobs(ch, L, with_chunk=False)
			res, h = run_cli(ctx, args, knobs)
			desc = f'failing command ({fk})'
			ctx.fault('failing_command:' + fk, status=res.status)
			ctx.log('op', op=kind, fail=fk, status=res.status)
		elif kind == 'interrupted':
			ck, args = _cli_ops(ctx, ch, L, world, pool, c)
			k = int(round(10 ** (ch.int(0, 380, L + '.k') / 100.0)))     # log-uniform 1 .. ~6300 line events
			knobs = Knobs(ch, L, with_chunk=False)
			with LineTrigger(k, 'interrupt') as trig:
				res, h = run_cli(ctx, args, knobs)
			desc = f'command {ck} interrupted at line event {k}'
			if trig.fired:
				ctx.fault('interrupt_at_line_event', k=k)
			ctx.log('op', op=kind, cmd=ck, k=k, fired=trig.fired, status=res.status)
		elif kind == 'killed':
			ck, args = _cli_ops(ctx, ch, L, world, pool, c)
			k = int(round(10 ** (ch.int(0, 380, L + '.k') / 100.0)))
			z = zygote.get()
			if z is None:
				raise HarnessError('zygote not started')
			r = z.call('gvsim.props.c18', 'killed_command', (args, k))
			if r is None:
				raise HarnessError('zygote died')
			desc = f'command {ck} SIGKILLed at line event {k}'
			if r['killed']:
				ctx.fault('kill_at_line_event', k=k)
			ctx.log('op', op=kind, cmd=ck, k=k, killed=r['killed'])
		elif kind == 'session_abuse':
			desc = _session_abuse(ctx, ch, L, world, mon, history + ['session_abuse'])
			ctx.fault('session_abuse')
			ctx.log('op', op=kind, desc=desc)
		else:
			try:
				desc = _library_op(ctx, ch, L, world, pool, archive_files)
				ctx.log('op', op=kind, desc=desc)
			except HarnessError:
				raise
			except Exception as e:
				# a library call that fails is just another failing operation of the history
				desc = 'library call raised'
				ctx.fault('library_call_raised', exc=type(e).__name__)
				ctx.log('op', op=kind, desc=desc, exc=type(e).__name__)
		history.append(desc.split(' (')[0] if kind != 'command' else desc)
		ctx.stats['executions'] += 1
		mon.after(desc, history)
		ctx.state(tuple(history))
	kinds = [h.split()[0] for h in history]
	if len(history) >= 2 and any(k in ('session', 'failing', 'command') and ('interrupted' in h or 'SIGKILLed' in h or k != 'command') for k, h in zip(kinds, history)):
		ctx.key(tuple(history))
	sqlmon.watch(None)
	ctx.sample = dict(n_ref=len(world.genomes), history=history)
