"""C20 - signature collections index like NumPy sequences and compare by content.

Claimed for its HISTORY half only (DESIGN 4.9): finite sequences of mutations of the list-backed
collection interleaved with observations, checked step by step against a reference model (a Python
list of arrays; NumPy indexing of an object array for selections).  No schedule or clock exists for
this property; the only fault kind is a read of the file-backed collection that fails once (I/O error
or KeyboardInterrupt), after which the same open collection must still answer correctly.  The index-expression half is evaluated only as the
observations of those histories.
"""
import array
import os
import random

import numpy as np

from ..engine import HarnessError, blob_hash
from ..worlds import sigs as WS

PROP = 'C20'
LEVEL = 'exploration'
RUNS = {'quick': 16000, 'thorough': 48000}

RULE = ('runs generated from the seed, one history per run: a SignatureList L with a model M (Python list), up to 30 steps drawn from mutations (L[i]=s, slice assignment, del L[i], '
        'del L[a:b:c], insert, append, extend, pop, reverse, clear, +=; in-range, negative and out-of-range positions) and observation rounds on L, on a SignatureArray built from M and on an '
        'HDF5Signatures file written and re-loaded from M (len, iteration, sizes, every integer index -n-1..n, slices, integer lists/arrays of all integer dtypes incl. array.array, boolean masks, '
        'ill-typed and out-of-range indices incl. unsigned 64-bit values within len of 2**64, sub-collection metadata, caller index unchanged, == across the three and != after perturbation). thorough: in the final round all slices (start, stop, step over -n-2..n+2 and None) for n<=4. '
        'A case is (history shape = sequence of operation kinds, observation kind, collection type); non-trivial = history has >=1 mutation before the observation.')
STATES_MEASURE = 'distinct mutation-kind sequences (history shapes) reached'

REAL = ['gambit.sigs.base.SignatureList / SignatureArray / ConcatenatedSignatureArray', 'gambit.util.indexing.AdvancedIndexingMixin', 'gambit.sigs.hdf5 (dump + load on scratch disk) for the file-backed snapshot', 'h5py']
STUB = ['h5py.Dataset.__getitem__ is wrapped to fail once on a drawn read (gvsim.seams.h5fault); otherwise nothing is stubbed: the collections are single-threaded values and the simulator generates and replays the operation history']
ASSUMPTIONS = [
	'reference model: Python list semantics for mutations (including which exception type is raised), NumPy indexing of an object array holding the model for selections',
	'ill-typed / out-of-range indices may raise IndexError or TypeError (the statement allows either)',
	'tuples, 0-d arrays and remove()/index() are outside the unambiguous core of the statement and are not generated',
]

INT_DTYPES = ['i8', 'i4', 'i2', 'i1', 'u1', 'u2', 'u4', 'u8']


def envs(tier):
	return [dict()]


def _eq_arr(a, b):
	a = np.asarray(a)
	b = np.asarray(b)
	return a.shape == b.shape and np.array_equal(a, b)


def _same_list(ctx, got, exp, what, klass='C20.select'):
	if len(got) != len(exp):
		ctx.violation(klass, f'{what}: {len(got)} signatures selected, the list gives {len(exp)}')
	for j, (g, e) in enumerate(zip(got, exp)):
		if not _eq_arr(g, e):
			ctx.violation(klass, f'{what}: element {j} is not the signature the list gives', detail=f'got {np.asarray(g)[:8]} expected {np.asarray(e)[:8]}')


def _materialise(sub):
	return [np.asarray(sub[i]) for i in range(len(sub))]


def _index_container(ch, rng, idx, n, label):
	"""Wrap a list of ints in a drawn container type. Returns (index object, snapshot function)."""
	kind = ch.pick(['list', 'ndarray', 'ndarray_small', 'array.array'], label + '.kind')
	if kind == 'list' or not idx:
		obj = list(idx)
		return obj, kind, (lambda: list(obj))
	lo, hi = min(idx), max(idx)
	if kind == 'ndarray':
		obj = np.array(idx, dtype=np.intp)
		return obj, 'ndarray[intp]', (lambda: obj.copy())
	if kind == 'ndarray_small':
		fits = [d for d in INT_DTYPES if np.iinfo(d).min <= lo and np.iinfo(d).max >= hi]
		dt = ch.pick(fits, label + '.dt')
		obj = np.array(idx, dtype=dt)
		return obj, f'ndarray[{dt}]', (lambda: obj.copy())
	codes = [c for c, (a, b) in dict(q=(-2 ** 63, 2 ** 63 - 1), i=(-2 ** 31, 2 ** 31 - 1), h=(-2 ** 15, 2 ** 15 - 1), b=(-128, 127)).items() if a <= lo and hi <= b]
	code = ch.pick(codes, label + '.code')
	obj = array.array(code, idx)
	return obj, f'array.array[{code}]', (lambda: array.array(code, obj))


def observe(ctx, coll, M, name, ch, L, kspec, dtype, thorough, shape, all_slices=False):
	"""One observation round on one collection against the model M."""
	rng = random.Random(ch.subseed(L + '.obs'))
	n = len(M)
	obj = np.empty(n, dtype=object)
	for i, a in enumerate(M):
		obj[i] = a
	where = f'{name} (n={n}) after {shape or "no mutation"}'
	if len(coll) != n:
		ctx.violation('C20.select', f'{where}: len() is {len(coll)}, the list has {n}')
	_same_list(ctx, list(iter(coll)), M, f'{where}: iteration')
	sizes = [int(x) for x in coll.sizes()]
	if sizes != [len(a) for a in M]:
		ctx.violation('C20.select', f'{where}: sizes() gives {sizes[:10]}, the signatures have {[len(a) for a in M][:10]}')
	# every integer index from -n-1 to n, as int and as a numpy integer
	ityp = ch.pick(['int', 'np.int64', 'np.int32', 'np.uint8', 'np.intp', 'np.uint64', 'np.int8'], L + '.ityp')
	for i in range(-n - 1, n + 1):
		idx = i
		if ityp != 'int':
			t = getattr(np, ityp[3:])
			if not (np.iinfo(t).min <= i <= np.iinfo(t).max):
				continue
			idx = t(i)
		if -n <= i < n:
			try:
				got = coll[idx]
			except Exception as e:
				ctx.violation('C20.select', f'{where}: [{ityp} {i}] raised {type(e).__name__}', detail=str(e))
			if not _eq_arr(got, M[i]):
				ctx.violation('C20.select', f'{where}: [{ityp} {i}] is not the signature the list gives')
		else:
			try:
				coll[idx]
			except (IndexError, TypeError):
				pass
			except Exception as e:
				ctx.violation('C20.error', f'{where}: out-of-range [{ityp} {i}] raised {type(e).__name__} instead of an index/type error')
			else:
				ctx.violation('C20.error', f'{where}: out-of-range [{ityp} {i}] did not raise')
	ctx.stats['observations'] += 2 * n + 2
	# slices
	rngv = [None] + list(range(-n - 2, n + 3))
	if thorough and all_slices and n <= 4:
		slices = [slice(a, b, c) for a in rngv for b in rngv for c in rngv if c != 0]
	else:
		slices = []
		for _ in range(12):
			slices.append(slice(rng.choice(rngv), rng.choice(rngv), rng.choice([None, None, 1, -1, 2, -2, 3, -3, n + 1, -(n + 1)] )))
	for s in slices:
		try:
			sub = coll[s]
		except Exception as e:
			ctx.violation('C20.select', f'{where}: [{s.start}:{s.stop}:{s.step}] raised {type(e).__name__}', detail=str(e))
		_same_list(ctx, _materialise(sub), M[s], f'{where}: slice [{s.start}:{s.stop}:{s.step}]')
		_check_meta(ctx, sub, kspec, dtype, f'{where}: slice [{s.start}:{s.stop}:{s.step}]')
	ctx.stats['observations'] += len(slices)
	# integer index sequences with repeats and negatives
	for r in range(4):
		m = rng.randint(0, n + 2) if n else 0
		idx = [rng.randrange(-n, n) for _ in range(m)] if n else []
		io, kind, snap = _index_container(ch, rng, idx, n, f'{L}.ia{r}')
		before = snap()
		try:
			sub = coll[io]
		except Exception as e:
			ctx.violation('C20.select', f'{where}: index {kind} {idx[:8]} raised {type(e).__name__}', detail=str(e))
		after = snap()
		if list(before) != list(after) or type(before) is not type(after) or getattr(before, 'dtype', None) != getattr(after, 'dtype', None):
			ctx.violation('C20.index-mutated', f'{where}: the caller\'s index {kind} was modified by indexing: {list(before)[:8]} -> {list(after)[:8]}')
		exp = [M[i] for i in idx]
		_same_list(ctx, _materialise(sub), exp, f'{where}: index {kind} {idx[:8]}')
		_check_meta(ctx, sub, kspec, dtype, f'{where}: index {kind}')
		ctx.key(shape, 'intarray:' + kind, name)
	# boolean masks
	for r in range(2):
		mask = [rng.random() < 0.5 for _ in range(n)]
		mo = mask if ch.flip(0.5, f'{L}.mk{r}') else np.array(mask, dtype=bool)
		if n == 0 and isinstance(mo, list):
			continue   # an empty list is an empty integer selection as well; nothing to tell apart
		try:
			sub = coll[mo]
		except Exception as e:
			ctx.violation('C20.select', f'{where}: boolean mask raised {type(e).__name__}', detail=str(e))
		_same_list(ctx, _materialise(sub), [a for a, k in zip(M, mask) if k], f'{where}: boolean mask {mask[:8]}')
		_check_meta(ctx, sub, kspec, dtype, f'{where}: boolean mask')
	ctx.stats['observations'] += 6
	# ill-typed / out-of-range
	bad = [('array with out-of-range entry', np.array([0, n], dtype=np.intp)), ('list with out-of-range negative entry', [-n - 1]),
	       ('mask of wrong length', np.ones(n + 1, dtype=bool)), ('float scalar', 1.0), ('float array', np.array([0.0])), ('2-D integer array', np.zeros((1, 1), dtype=np.intp)),
	       ('string', 'a'),
	       # unsigned 64-bit values that would wrap to an in-range negative if converted to intp before the bounds test
	       ('uint64 array holding 2**64-1', np.array([2 ** 64 - 1], dtype=np.uint64)),
	       ('uint64 array holding 2**64-len', np.array([2 ** 64 - max(n, 1)] * 2, dtype=np.uint64)),
	       ('list holding 2**64-1', [2 ** 64 - 1]), ('uint64 array holding 2**63', np.array([2 ** 63], dtype=np.uint64)),
	       ('uint64 scalar 2**64-1', np.uint64(2 ** 64 - 1)), ('uint64 scalar 2**64-len', np.uint64(2 ** 64 - max(n, 1))),
	       ('array.array[Q] holding 2**64-1', array.array('Q', [2 ** 64 - 1])), ('int 2**64-1', 2 ** 64 - 1)]
	for what, b in bad:
		try:
			coll[b]
		except (IndexError, TypeError):
			continue
		except Exception as e:
			ctx.violation('C20.error', f'{where}: index {what} raised {type(e).__name__} instead of an index/type error', detail=str(e))
		ctx.violation('C20.error', f'{where}: index {what} did not raise')
	ctx.stats['observations'] += len(bad)
	ctx.key(shape, 'round', name)


def _check_meta(ctx, sub, kspec, dtype, what):
	from gambit.sigs.base import AbstractSignatureArray
	if not isinstance(sub, AbstractSignatureArray):
		ctx.violation('C20.meta', f'{what}: result is a {type(sub).__name__}, not a signature collection')
	if sub.kmerspec != kspec:
		ctx.violation('C20.meta', f'{what}: sub-collection carries k-mer parameters {sub.kmerspec}')
	if np.dtype(sub.dtype) != np.dtype(dtype):
		ctx.violation('C20.meta', f'{what}: sub-collection has integer type {sub.dtype}, the collection has {dtype}')


def scenario(ctx):
	ch = ctx.ch
	from gambit.kmers import KmerSpec
	from gambit.sigs.base import SignatureArray, SignatureList, AnnotatedSignatures, dump_signatures, load_signatures
	thorough = ctx.tier == 'thorough'
	k = ch.pick([6, 4, 9, 17], 'k')
	kspec = KmerSpec(k, ch.pick(['AT', 'G', 'ATGAC'], 'prefix'))
	dtype = str(np.dtype(kspec.index_dtype))
	rng = random.Random(ch.subseed('world'))
	universe = min(4 ** k, 2 ** 40)
	big = ch.flip(0.08, 'long_collection')     # longer than any 8-bit index can address
	n0 = ch.int(128, 200, 'n0_big') if big else ch.int(0, 6, 'n0')

	def new_sig():
		return WS.make_collection(rng, 1, universe, max_size=12)[0].astype(dtype)

	M = [new_sig() for _ in range(n0)]
	# the list the collection is built from stays the caller's: a second collection built from the same list object, and
	# the list itself, must not change when L is mutated
	src_list = list(M)
	L = SignatureList(src_list, kspec, dtype=np.dtype(dtype))
	L_twin = SignatureList(src_list, kspec, dtype=np.dtype(dtype))
	M_initial = list(M)
	ctx.log('world', k=k, dtype=dtype, n0=n0, h=blob_hash(np.concatenate(M).astype('u8')) if M else '')
	shape = []
	n_steps = ch.int(1, 30 if not big else 8, 'n_steps')
	hfile = [0]

	prev = {'H': None, 'M': None}

	def snapshots():
		A = SignatureArray(M, kspec, dtype=np.dtype(dtype))
		H = None
		closer = None
		if len(M) >= 1:
			hfile[0] += 1
			# the file-backed snapshot always lives under the same name: each new one REPLACES the file on disk
			# (os.replace) while the previous view may still be open - two views of "the same file name" are
			# equal only if their contents are
			path = os.path.join(ctx.scratch, 'snap.gs')
			tmp = os.path.join(ctx.scratch, 'snap.tmp.gs')
			dump_signatures(tmp, A)
			os.replace(tmp, path)
			H = load_signatures(path)
			if prev['H'] is not None:
				same = len(prev['M']) == len(M) and all(_eq_arr(a, b) for a, b in zip(prev['M'], M))
				try:
					eq = (prev['H'] == H)
				except Exception as e:
					ctx.violation('C20.eq', f'HDF5Signatures == HDF5Signatures raised {type(e).__name__}', detail=str(e))
				if bool(eq) != same:
					ctx.violation('C20.eq', f'two file-backed collections opened under the same file name compare {"equal" if eq else "unequal"} although their signatures are {"equal" if same else "different"} (the file was replaced in between; history {",".join(shape[-8:])})')
				ctx.probe('file_replaced_while_view_open')
				try:
					prev['H'].close()
				except Exception:
					pass
			prev['H'], prev['M'] = H, [a.copy() for a in M]
			closer = None     # kept open until the next snapshot replaces it
			# a read of the file-backed collection that fails once must not poison later reads
			if ch.flip(0.25, f'rf{hfile[0]}'):
				from ..seams.h5fault import read_fault
				exc_t = ch.pick([OSError, KeyboardInterrupt], f'rf{hfile[0]}.exc')
				with read_fault(ch.int(1, 4, f'rf{hfile[0]}.k'), exc_t) as rf:
					try:
						for i in range(len(M)):
							np.asarray(H[i])
						H[list(range(len(M)))[::-1]]
					except (OSError, KeyboardInterrupt):
						pass
				if rf.fired:
					ctx.fault('hdf5_read_error_once' if exc_t is OSError else 'hdf5_read_interrupted_once')
		return A, H, closer

	for step in range(n_steps):
		Ls = f's{step}'
		n = len(M)
		op = ch.pick(['observe', 'setitem', 'insert', 'delitem', 'append', 'observe_eq', 'pop', 'extend', 'setslice', 'delslice', 'reverse', 'iadd', 'clear'], Ls + '.op')
		ctx.tick()
		if op in ('observe', 'observe_eq'):
			A, H, closer = snapshots()
			try:
				sh = ','.join(shape[-12:])
				if op == 'observe':
					target = ch.pick(['L', 'A', 'H'], Ls + '.target')
					coll = dict(L=L, A=A, H=H)[target]
					if coll is None:
						coll, target = L, 'L'
					observe(ctx, coll, M, dict(L='SignatureList', A='SignatureArray', H='HDF5Signatures')[target], ch, Ls, kspec, dtype, thorough, sh)
				else:
					colls = [('SignatureList', L), ('SignatureArray', A)] + ([('HDF5Signatures', H)] if H is not None else [])
					for na, ca in colls:
						for nb, cb in colls:
							try:
								eq = (ca == cb)
							except Exception as e:
								ctx.violation('C20.eq', f'{na} == {nb} raised {type(e).__name__} after {sh or "no mutation"}', detail=str(e))
							if eq is not True and eq is not np.True_:
								ctx.violation('C20.eq', f'{na} == {nb} is {eq!r} although k-mer parameters and all {len(M)} signatures are equal (after {sh or "no mutation"})')
					# perturbations must compare unequal
					if len(M) >= 1:
						j = rng.randrange(len(M))
						P = [a.copy() for a in M]
						if len(P[j]):
							x = rng.randrange(len(P[j]))
							P[j][x] = int(P[j][x]) ^ 1
							if not _eq_arr(P[j], M[j]):
								for na, ca in colls:
									if (ca == SignatureList(P, kspec, dtype=np.dtype(dtype))) is not False and (ca == SignatureList(P, kspec, dtype=np.dtype(dtype))) is not np.False_:
										ctx.violation('C20.eq', f'{na} compares equal to a collection that differs in one element of signature {j}')
						D = M[:j] + M[j + 1:]
						for na, ca in colls:
							if (ca == SignatureList(D, kspec, dtype=np.dtype(dtype))) not in (False, np.False_):
								ctx.violation('C20.eq', f'{na} compares equal to a collection with signature {j} dropped')
					other = KmerSpec(k + 1, kspec.prefix)
					for na, ca in colls:
						if (ca == SignatureList(M, other, dtype=np.dtype(dtype))) not in (False, np.False_):
							ctx.violation('C20.eq', f'{na} compares equal to a collection with other k-mer parameters')
					ctx.stats['observations'] += len(colls) ** 2 + 3
					ctx.key(sh, 'eq')
			finally:
				if closer:
					closer()
			ctx.stats['executions'] += 1
			continue
		# ---- mutations: apply to the model first (capturing the exception a list raises), then to L
		pos = ch.pick(['in', 'neg', 'out', 'end'], Ls + '.pos')
		i = dict(**{'in': rng.randrange(n) if n else 0, 'neg': -rng.randint(1, n) if n else -1, 'out': rng.choice([n, n + 2, -n - 1, -n - 3]), 'end': n}) [pos]
		news = [new_sig() for _ in range(rng.randint(0, 3))]
		a, b = sorted([rng.randint(-n - 1, n + 1), rng.randint(-n - 1, n + 1)])
		c = rng.choice([None, 1, 2, -1, 3])

		def apply(target):
			if op == 'setitem':
				target[i] = news[0] if news else M0
			elif op == 'insert':
				target.insert(i, M0)
			elif op == 'delitem':
				del target[i]
			elif op == 'append':
				target.append(M0)
			elif op == 'pop':
				return target.pop(i) if pos != 'end' else target.pop()
			elif op == 'extend':
				target.extend(news)
			elif op == 'setslice':
				target[a:b] = news
			elif op == 'delslice':
				del target[a:b:c]
			elif op == 'reverse':
				target.reverse()
			elif op == 'iadd':
				target += news
			elif op == 'clear':
				target.clear()
			return None
		M0 = new_sig()
		exp_exc, exp_ret = None, None
		M_before = list(M)
		try:
			exp_ret = apply(M)
		except Exception as e:
			exp_exc = type(e)
			M[:] = M_before
		got_exc, got_ret = None, None
		try:
			got_ret = apply(L)
		except HarnessError:
			raise
		except Exception as e:
			got_exc = type(e)
		shape.append(op)
		ctx.stats['executions'] += 1
		ctx.stats['mutations'] += 1
		what = f'{op}(pos {i if op in ("setitem", "insert", "delitem", "pop") else (a, b, c)}) on a list of {n} after {",".join(shape[-8:-1]) or "nothing"}'
		if exp_exc is not got_exc:
			ctx.violation('C20.mutation', f'{what}: raised {got_exc.__name__ if got_exc else "nothing"}, a list raises {exp_exc.__name__ if exp_exc else "nothing"}')
		if exp_exc is None and exp_ret is not None and not _eq_arr(got_ret, exp_ret):
			ctx.violation('C20.mutation', f'{what}: returned a different signature than the list')
		if len(L) != len(M):
			ctx.violation('C20.mutation', f'{what}: collection has {len(L)} signatures, the list has {len(M)}')
		for j in range(len(M)):
			if not _eq_arr(L[j], M[j]):
				ctx.violation('C20.mutation', f'{what}: element {j} differs from the list afterwards')
		ctx.log('mut', op=op, n=len(M), exc=exp_exc.__name__ if exp_exc else None)
	ctx.state(tuple(shape))
	# the twin built from the same Python list, and that list, still hold the initial content
	if len(src_list) != len(M_initial) or not all(_eq_arr(a, b) for a, b in zip(src_list, M_initial)):
		ctx.violation('C20.mutation', f'mutating the collection changed the caller\'s list it was constructed from (after {",".join(shape[-8:])})')
	if len(L_twin) != len(M_initial) or not all(_eq_arr(L_twin[i], M_initial[i]) for i in range(len(M_initial))):
		ctx.violation('C20.mutation', f'a second collection constructed from the same list changed when the first was mutated (after {",".join(shape[-8:])})')
	# concatenated collections over other layouts of the same signatures: a window into a larger buffer, spare capacity
	if len(M) >= 1:
		sizes = [len(a) for a in M]
		pad = rng.randint(1, 5)
		buf = np.concatenate([np.arange(pad, dtype=dtype)] + [a for a in M] + [np.arange(3, dtype=dtype)]) if M else np.arange(pad, dtype=dtype)
		bounds = np.concatenate([[0], np.cumsum(sizes)]).astype(np.intp) + pad
		W = SignatureArray.from_arrays(buf, bounds, kspec)
		A0 = SignatureArray(M, kspec, dtype=np.dtype(dtype))
		for x, y, nx, ny in ((W, A0, 'window', 'compact'), (A0, W, 'compact', 'window')):
			if (x == y) is not True and (x == y) is not np.True_:
				ctx.violation('C20.eq', f'a concatenated collection that is a window into a larger buffer compares unequal ({nx} == {ny}) to a compact copy of the same {len(M)} signatures')
		# same sizes, other content: shift the window by one element
		if sum(sizes) >= 1:
			W2 = SignatureArray.from_arrays(buf, bounds - 1, kspec)
			differs = any(not _eq_arr(W2[i], M[i]) for i in range(len(M)))
			if differs and (W2 == A0) not in (False, np.False_):
				ctx.violation('C20.eq', 'two concatenated collections with equal signature sizes but different contents (windows at different offsets) compare equal')
		# two different collections stored in two groups of ONE HDF5 file
		import h5py
		from gambit.sigs.hdf5 import HDF5Signatures
		gpath = os.path.join(ctx.scratch, 'groups.h5')
		other = [a.copy() for a in M]
		j = rng.randrange(len(other))
		other[j] = new_sig() if len(M[j]) == 0 else M[j][:-1].copy()
		with h5py.File(gpath, 'w') as f:
			HDF5Signatures.create(f.create_group('a'), A0)
			HDF5Signatures.create(f.create_group('b'), SignatureArray(other, kspec, dtype=np.dtype(dtype)))
		with h5py.File(gpath, 'r') as f:
			ga, gb = HDF5Signatures(f['a']), HDF5Signatures(f['b'])
			same = all(_eq_arr(x, y) for x, y in zip(M, other))
			if bool(ga == gb) != same:
				ctx.violation('C20.eq', f'two signature sets stored in different groups of one HDF5 file compare {"equal" if ga == gb else "unequal"} although their contents are {"equal" if same else "different"}')
			if (ga == A0) not in (True, np.True_):
				ctx.violation('C20.eq', 'a signature set stored in a group of an HDF5 file compares unequal to the in-memory collection it was written from')
		ctx.stats['observations'] += 6
	# final observation round on all three
	A, H, closer = snapshots()
	try:
		sh = ','.join(shape[-12:])
		for name, coll in (('SignatureList', L), ('SignatureArray', A), ('HDF5Signatures', H)):
			if coll is not None:
				observe(ctx, coll, M, name, ch, f'final.{name}', kspec, dtype, thorough, sh, all_slices=True)
		if not (L == A):
			ctx.violation('C20.eq', f'SignatureList == SignatureArray is False after {sh or "no mutation"} although all signatures are equal')
	finally:
		if closer:
			closer()
	if prev['H'] is not None:
		try:
			prev['H'].close()
		except Exception:
			pass
	ctx.stats['executions'] += 1
	ctx.log('final', n=len(M), shape=','.join(shape), h=blob_hash(np.concatenate(M).astype('u8')) if M else '')
	ctx.sample = dict(n0=n0, steps=n_steps, shape=','.join(shape))
