"""C08 - query output rows: one per input, in order, correctly labelled, context-free.

System: the real `gambit -d DB query` command in-process (two thirds of the commands) or the public
API it wraps (one third), in a generated world, with the parsing pool's completion order (S1), the
OpenMP hand-out (S2), short reads (S4) and the ambient knobs (S7: chunk size, machine size, thread
setting left by the previous command, progress) held by the simulator.  DESIGN 4.3.
"""
import csv
import io
import json
import os
import random

from ..engine import HarnessError, blob_hash
from ..harness import Knobs, run_cli, simulated
from ..oracles.labels import label as label_model
from ..seams import omp
from ..worlds import queries as Q
from ..worlds import refdb as R

PROP = 'C08'
LEVEL = 'exploration'
RUNS = {'quick': 256, 'thorough': 3840}

RULE = ('runs generated from the seed: a reference database world (3-25 genomes, taxonomy forest, permuted/padded signature file) and a pool of 2-8 query genomes '
        '(plain + gzip files in different directories, pre-computed signature file); then 8-16 query commands with drawn batch (1-6 inputs, any order, repeats), '
        'channel (positional / list file + --ldir / signature file), format, strictness, -c, progress, reference chunk size, machine size, left-over OpenMP setting, '
        'pool completion policy and OpenMP hand-out. Each row is compared with the reference row of that genome (genome alone, positional, plain, no -c, no progress). '
        'A case is (batch as multiset+order, channel, format, strict, cores, chunk regime, completion order, route); non-trivial = batch>=2 or cores>=2. Further drawn dimensions: one injected fault in a seventh of the commands (worker death, read error; fail-or-fully-correct oracle), failing commands as context, homonym files, symlinked inputs, multi-member gzip, extension-less and non-ASCII names, list files without --ldir, decoy working directory, tuning-knob defaults, rare batches of 520/640 inputs, integer ids from 0, python -O in every fourth run.')
STATES_MEASURE = 'distinct OpenMP schedule signatures of whole commands'

REAL = ['click command gambit query, argument handling, label derivation', 'database loading (SQLite through SQLAlchemy, HDF5 through h5py)',
        'calc_file_signatures, FASTA/gzip parsing', 'jaccarddist_matrix + compiled kernel', 'classification', 'CSV/JSON/archive exporters']
STUB = ['worker pool (gvsim.seams.executor)', 'OpenMP dynamic dispenser (native/gompsim.c)', 'reads of query files (short reads through gvsim.seams.iosim)',
        'chunk size of the QueryParams constructed by the command (rebound through the module-level name; the command exposes no option)']
ASSUMPTIONS = [
	'the reference row of a genome is what the real command prints for that genome alone (positional, plain file, no -c, no progress, default chunk size)',
	'labels are compared with an independent model: basename, strip one .gz, strip one FASTA suffix; generated names stay inside what every reading of "file name minus extension" agrees on',
	'distances are compared as the exact decimal text of the output',
]


def envs(tier):
	base = {'OMP_WAIT_POLICY': 'PASSIVE', 'GOMP_SPINCOUNT': '0', 'OMP_DYNAMIC': 'FALSE'}
	# every fourth run under `python -O`: results must not depend on assert statements being executed
	return [dict(preload=['gompsim.so'], env=base)] * 3 + [dict(preload=['gompsim.so'], env=dict(base, PYTHONOPTIMIZE='1'))]


PREFIXES = ['AT', 'GC', 'ATG', 'TA', 'CG', 'AC']
FORMS = ['plain', 'gz', 'plain', 'gz', 'alias', 'link']   # alias: same content under another genome's file name, elsewhere


def draw_kspec(ch, default_every=12):
	from gambit.kmers import KmerSpec
	if ch.int(0, default_every - 1, 'default_kspec') == default_every - 1:
		return KmerSpec(11, 'ATGAC')
	return KmerSpec(ch.pick([6, 5, 7, 8, 9], 'k'), ch.pick(PREFIXES, 'prefix'))


# ---------------------------------------------------------------------------------------------
# parsing the three output formats into (label, content) per row

def parse_output(fmt, text):
	"""Returns list of (label, content) where content is a JSON-able, order-preserving structure."""
	if fmt == 'csv':
		rows = list(csv.reader(io.StringIO(text)))
		if not rows:
			return None
		header = rows[0]
		qi = header.index('query')
		out = []
		for r in rows[1:]:
			out.append((r[qi], [[h, v] for i, (h, v) in enumerate(zip(header, r)) if i != qi] + [['ncols', len(r)]]))
		return out
	data = json.loads(text, parse_float=lambda s: 'f:' + s)   # keep the exact decimal text of every float
	out = []
	if fmt == 'json':
		for it in data['items']:
			out.append((it['query']['name'], dict(predicted_taxon=it['predicted_taxon'], next_taxon=it['next_taxon'],
			                                       closest_genomes=it['closest_genomes'])))
		return out
	for it in data['items']:
		lab = it['input']['label']
		out.append((lab, {k: v for k, v in it.items() if k != 'input'}))
	return out


def canon(x):
	return json.dumps(x, sort_keys=True)


class Refs:
	"""Reference rows: genome alone, positional, plain file, no -c, no progress (cached per format/strict)."""

	def __init__(self, ctx, world, pool):
		self.ctx, self.world, self.pool = ctx, world, pool
		self.cache = {}
		self.knobs = None

	def row(self, gi, fmt, strict):
		key = (gi, fmt, strict)
		if key not in self.cache:
			out = os.path.join(self.ctx.scratch, f'ref-{gi}-{fmt}-{int(strict)}.out')
			args = ['-d', self.world.dir, 'query', '-o', out, '-f', fmt, '--no-progress'] + (['--strict'] if strict else []) + [self.pool.genomes[gi]['plain']]
			k = RefKnobs()
			omp.set_threads(1)
			res, _ = run_cli(self.ctx, args, k)
			self.ctx.stats['reference_executions'] += 1
			if res.status != 0:
				raise HarnessError(f'reference execution failed: {res!r} {res.exc!r} {res.stderr[-300:]}')
			rows = parse_output(fmt, open(out).read())
			if rows is None or len(rows) != 1:
				raise HarnessError(f'reference execution printed {rows and len(rows)} rows')
			self.cache[key] = canon(rows[0][1])
		return self.cache[key]


class RefKnobs:
	policy = 'fifo'
	starve = None
	machine = 1
	tpol = 'uniform'
	opol = 'ascending'
	omp_seed = 0
	chunksize = 1000

	def describe(self):
		return dict(reference=True)


def build_world(ctx, ch, n_ref_range=(3, 25), pool_range=(2, 8)):
	kspec = draw_kspec(ch)
	rng = random.Random(ch.subseed('refworld'))
	n_gen = ch.int(*n_ref_range, 'n_ref')
	world = R.build(ctx, rng, kspec, n_gen)
	npool = ch.int(*pool_range, 'n_pool')
	int_ids = ch.flip(0.2, 'int_ids')
	pool = Q.build(ctx, random.Random(ch.subseed('pool')), world, npool, int_ids=int_ids)
	ctx.log('world', k=kspec.k, prefix=kspec.prefix_str, n_ref=n_gen, n_taxa=len(world.taxa), id_attr=world.id_attr,
	        pad=len(world.sig_order) - n_gen, n_pool=npool, int_ids=int_ids,
	        taxa=blob_hash(repr(world.taxa)), gs_ids=blob_hash(repr(world.sig_ids)),
	        pool=[(g['stem'] + g['ext'], blob_hash(g['sig'])) for g in pool.genomes])
	return world, pool


def scenario(ctx):
	ch = ctx.ch
	if not omp.available():
		raise HarnessError('C08 needs the gompsim shim preloaded')
	world, pool = build_world(ctx, ch, n_ref_range=(3, 60) if ctx.tier == 'thorough' else (3, 25))
	refs = Refs(ctx, world, pool)
	n_ref = len(world.genomes)
	npool = len(pool.genomes)
	omp.set_threads(ch.int(1, 16, 'initial_threads'))
	n_cmd = ch.int(8, 16, 'n_cmd')
	all_paths = [g['plain'] for g in pool.genomes] + [g['gz'] for g in pool.genomes] + [g['alias'] for g in pool.genomes if g['alias']] + [g['link'] for g in pool.genomes]
	for c in range(n_cmd):
		L = f'c{c}'
		if ch.flip(0.12, L + '.failing_before'):
			# context: a command that fails in mid-parse (cut gzip member). Nothing is demanded of it here; the
			# commands after it must still print each genome's own row.
			fk = Knobs(ch, L + '.fail', with_chunk=False)
			g0 = ch.int(0, npool - 1, L + '.fail.g')
			fargs = ['-d', world.dir, 'query', '-o', os.path.join(ctx.scratch, f'fail-{c}.csv'), '--no-progress'] + \
				([pool.genomes[g0]['plain'], pool.broken] if ch.flip(0.5, L + '.fail.order') else [pool.broken, pool.genomes[g0]['plain']])
			fres, _ = run_cli(ctx, fargs, fk, short_paths=all_paths, short_seed=0)
			ctx.fault('failing_command_before', status=fres.status)
			ctx.log('failing_cmd', status=fres.status, exc=type(fres.exc).__name__ if fres.exc else None)
		channel = ch.pick(['positional', 'listfile', 'sigfile'], L + '.channel')
		fmt = ch.pick(['csv', 'json', 'archive'], L + '.fmt')
		strict = ch.flip(0.25, L + '.strict')
		cores = ch.pick([None, 1, 2, 3, 4, 8, 16], L + '.cores')
		progress = ch.flip(0.5, L + '.progress')
		route = ch.pick(['cli', 'cli', 'api'], L + '.route')
		knobs = Knobs(ch, L, n_tasks_hint=6, with_chunk=True, nrefs=n_ref, faults=True)
		out = os.path.join(ctx.scratch, f'out-{c}.{fmt}')
		no_ldir = False
		if channel == 'sigfile':
			batch = list(range(npool))      # the whole stored collection, in stored order
			expected_labels = [str(x) for x in pool.sig_ids]
			inputs = [pool.sigfile]
			args_in = ['-s', pool.sigfile]
		else:
			if ch.flip(0.025, L + '.large_batch'):
				# far beyond the usual batch size: thresholds like "above 500 files" / "200 files per worker" only engage here
				bsize = ch.pick([520, 640], L + '.large_n')
				brng = random.Random(ch.subseed(L + '.large_order'))
				batch = [brng.randrange(npool) for _ in range(bsize)]
				forms = [brng.choice(FORMS) for _ in range(bsize)]
				ctx.probe('large_batch')
			else:
				bsize = ch.int(1, 6, L + '.bsize')
				batch = [ch.int(0, npool - 1, f'{L}.b{i}') for i in range(bsize)]
				forms = [ch.pick(FORMS, f'{L}.f{i}') for i in range(bsize)]
			paths = [pool.genomes[g][f] or pool.genomes[g]['plain'] for g, f in zip(batch, forms)]
			if channel == 'positional':
				# absolute or relative to cwd? the harness never changes cwd: absolute paths
				inputs = paths
				args_in = list(paths)
				expected_labels = [label_model(p) for p in paths]
			else:
				base = ch.pick([pool.root, ctx.scratch, os.path.dirname(paths[0])], L + '.ldir')
				rels = [os.path.relpath(p, base) for p in paths]
				lf = os.path.join(ctx.scratch, f'list-{c}.txt')
				with open(lf, 'w') as f:
					blank = ch.flip(0.3, L + '.blank')
					for r in rels:
						f.write(r + '\n')
						if blank:
							f.write('\n')
				inputs = paths
				args_in = ['-l', lf, '--ldir', base]
				if ch.flip(0.3, L + '.no_ldir'):
					# --ldir omitted: entries are relative to the directory the command is run in
					args_in = ['-l', lf]
					no_ldir = True
				expected_labels = [label_model(r) for r in rels]
		args = ['-d', world.dir, 'query', '-o', out, '-f', fmt] + (['--strict'] if strict else [])
		args += ['--progress' if progress else '--no-progress']
		if cores is not None:
			args += ['-c', str(cores)]
		args += args_in
		cwd = pool.decoy_cwd if ch.flip(0.5, L + '.decoy_cwd') else None
		if no_ldir:
			cwd = base
		fault_paths = inputs if channel != 'sigfile' else None
		desc = dict(channel=channel, fmt=fmt, strict=strict, cores=cores, progress=progress, route=route, batch=batch if len(batch) <= 12 else [len(batch), blob_hash(repr(batch))], decoy_cwd=bool(cwd), **knobs.describe())
		if route == 'cli':
			res, h = run_cli(ctx, args, knobs, short_paths=all_paths, short_seed=ch.subseed(L + '.short'), chunk=True, cwd=cwd, ch=ch, label=L, fault_paths=fault_paths)
			status, exc, stderr = res.status, res.exc, res.stderr
		else:
			status, exc, stderr, h = _api_route(ctx, ch, L, world, pool, channel, args_in, fmt, strict, cores, progress, knobs, out, all_paths, cwd, fault_paths)
		ctx.stats['executions'] += 1
		order = list(h.sim.completion_order)
		text = open(out).read() if os.path.exists(out) else ''
		try:
			out_hash = blob_hash(canon(parse_output(fmt, text)))   # not the raw text: JSON/archive carry a wall-clock timestamp
		except Exception:
			out_hash = 'unparseable'
		ctx.log('cmd', **desc, status=status, order=order, out=out_hash, omp=h.omp_sig)
		if knobs.chunksize is not None and knobs.chunksize < n_ref:
			ctx.probe('chunk_smaller_than_references')
		if len(order) >= 2 and order != sorted(order):
			ctx.probe('completion_out_of_submission_order')
		if h.omp_stats and h.omp_stats['max_executing'] >= 2:
			ctx.probe('ge2_threads_executed_iterations')
		if len(batch) >= 2 or (cores or 1) >= 2:
			ctx.key(tuple(batch) if len(batch) <= 12 else (len(batch), blob_hash(repr(batch))), channel, fmt, strict, cores, 'small' if (knobs.chunksize or 10 ** 9) < n_ref else 'big', tuple(order), route)
		key_desc = f'{channel}/{fmt}{"/strict" if strict else ""} -c {cores} chunk {knobs.chunksize} via {route}'
		if h.fault_fired and status != 0:
			# an injected fault (worker death, read error) may make the command fail; it may never make it print wrong rows
			ctx.probe('command_failed_under_fault')
			continue
		if h.fault_fired:
			ctx.probe('command_succeeded_under_fault')
		if status != 0:
			ctx.violation('C08.count', f'query {key_desc} exited with status {status} ({type(exc).__name__ if exc else "no exception"})',
			              detail=f'{exc!r}; stderr: {stderr[-400:]}')
		try:
			rows = parse_output(fmt, text)
		except Exception as e:
			ctx.violation('C08.count', f'query {key_desc}: output is not parseable {fmt}', detail=repr(e))
		if rows is None or len(rows) != len(batch):
			ctx.violation('C08.count', f'query {key_desc}: {0 if rows is None else len(rows)} rows for {len(batch)} inputs')
		got_labels = [str(r[0]) for r in rows]
		for i, (gi, (lab, content)) in enumerate(zip(batch, rows)):
			ref = refs.row(gi, fmt, strict)
			if canon(content) != ref:
				# does row i carry the content of another input of this batch?
				others = [j for j, gj in enumerate(batch) if gj != gi and refs.row(gj, fmt, strict) == canon(content)]
				if others:
					ctx.violation('C08.order', f'query {key_desc}: row {i} carries the result of input {others[0]} (completion order {order})',
					              detail=f'batch {batch}')
				ctx.violation('C08.content', f'query {key_desc}: row {i} differs from the result of the same genome queried alone',
				              detail=f'batch {batch} order {order}\n got {canon(content)[:600]}\n ref {ref[:600]}')
			if str(lab) != expected_labels[i]:
				if sorted(got_labels) == sorted(expected_labels):
					ctx.violation('C08.order', f'query {key_desc}: labels are a permutation of the expected ones (row {i} is {lab!r}, expected {expected_labels[i]!r})')
				ctx.violation('C08.label', f'query {key_desc}: row {i} labelled {lab!r}, expected {expected_labels[i]!r}')
	ctx.sample = dict(n_ref=n_ref, n_pool=npool, commands=n_cmd)


def _api_route(ctx, ch, L, world, pool, channel, args_in, fmt, strict, cores, progress, knobs, out, all_paths, cwd=None, fault_paths=None):
	"""The public API the command is a wrapper of; chunksize is an ordinary argument here."""
	from gambit.cli import common
	from gambit.cli.query import get_exporter
	from gambit.db import ReferenceDatabase
	from gambit.query import QueryParams, QueryInput, query, query_parse
	from gambit.sigs import load_signatures
	from gambit.util.progress import progress_config, TestProgressMeter
	import gc
	status, exc = 0, None
	h = None
	try:
		from ..harness import in_dir, knob_defaults
		with simulated(ctx, knobs, all_paths, ch.subseed(L + '.short'), fault_paths) as h, in_dir(cwd), knob_defaults(ctx, ch, L):
			db = ReferenceDatabase.load_from_dir(world.dir)
			params = QueryParams(classify_strict=strict, chunksize=knobs.chunksize)
			pconf = progress_config(TestProgressMeter) if progress else None
			if cores is not None:
				omp.set_threads(cores)
			if channel == 'sigfile':
				sigs = load_signatures(pool.sigfile)
				inputs = [QueryInput(id) for id in sigs.ids]
				results = query(db, sigs, params, inputs=inputs, progress=pconf)
			else:
				if channel == 'positional':
					ids, files = common.get_sequence_files(args_in, None, None)
				else:
					with open(args_in[1]) as lf:
						ids, files = common.get_sequence_files(None, lf, args_in[3] if len(args_in) > 3 else '.')
				results = query_parse(db, files, params, file_labels=ids, progress=pconf, parse_kw=dict(max_workers=cores))
			get_exporter(fmt).export(out, results)
	except HarnessError:
		raise
	except Exception as e:
		status, exc = 1, e
	finally:
		gc.collect()
	ctx.tick()
	ctx.stats['commands'] += 1
	return status, exc, '', h
