"""C13 - multi-file signature computation keeps file order under every completion order.

System: gambit.sigs.calc.calc_file_signatures, real code, seams S1 (simulated pool) and S4 (read
faults).  Oracle: per-file reference execution (single-file function, run alone) - DESIGN 4.1.
"""
import errno
import itertools
import os
import random

import numpy as np

from ..engine import HarnessError, blob_hash
from ..seams import executor as sx
from ..seams import iosim
from ..worlds import genomes as G

PROP = 'C13'
LEVEL = 'exploration'
RUNS = {'quick': 640, 'thorough': 9600}

RULE = ('runs generated from the seed: a world of n FASTA files (n 0..8, thorough 0..12), then several executions of '
        'calc_file_signatures with drawn concurrency mode, worker count, completion-order policy and 0-2 faults; '
        'every fourth run (of each interpreter environment) is an exhaustive run: all n! completion orders x (no fault + an unreadable file at each '
        'position) for n<=5 (thorough n<=6). A case is (n, mode, workers, completion order, fault placement, outcome); '
        'non-trivial = n>=2 and (completion order differs from submission order or a fault fired). Further drawn dimensions: thread-pool task bodies interleaved at line events, deferred done-callbacks, owner cancels queued tasks, relative paths, paths through a symlinked directory and .., named pipes, rare batches of 520-1040 files, python -O in every fourth run.')

REAL = ['gambit.sigs.calc.calc_file_signatures', 'calc_file_signature', 'SequenceFile.parse', 'gambit.util.io.open_compressed',
        'Bio.SeqIO fasta parser', 'gzip', 'k-mer search (Cython)', 'accumulators', 'progress meters', 'pickle of task arguments/results']
STUB = ['concurrent.futures pools, futures, as_completed/wait (gvsim.seams.executor); in half of the thread-pool executions task bodies run in real threads, one at a time, pre-empted at Python line events of gambit frames chosen by the scheduler', 'process boundary (pickle round trip in-process)',
        'file reads of faulted paths (gvsim.seams.iosim.SimRaw over the real file)']
ASSUMPTIONS = [
	'process-pool task bodies run atomically at their completion instant (exact: tasks share nothing); thread-pool task bodies are either atomic or interleaved at line granularity in gambit frames - not at byte-code granularity, and not inside Biopython / NumPy frames',
	'the reference outcome of a file is what calc_file_signature returns/raises when run alone under the same permanent read faults',
	'a raised call is accepted iff some input is unreadable by the reference execution or a pool-level/transient fault fired',
]

PREFIXES = ['AT', 'A', 'GC', 'ATG', 'C', 'TA']


def envs(tier):
	# every fourth run under `python -O`: results must not depend on assert statements being executed
	return [dict(), dict(), dict(), dict(env={'PYTHONOPTIMIZE': '1'})]


def worker_init(args):
	"""Line-event counts (pre-emption points of interleaved task bodies) depend a little on what the process executed
	before (first-time tracing of a code object in CPython 3.12, library caches): every worker runs a few fixed,
	unjudged interleaved executions first."""
	from .. import engine
	root = engine.scratch_root()
	for r in (1, 2, 5, 6, 9):
		try:
			engine.execute(scenario, PROP, 987654321, r, 'quick', root=root)
		except Exception:
			pass


def _kspec(ch):
	from gambit.kmers import KmerSpec
	k = ch.pick([6, 5, 7, 4, 8, 3, 12], 'k')
	prefix = ch.pick(PREFIXES, 'prefix')
	return KmerSpec(k, prefix)


def _build_world(ctx, n):
	"""Returns (paths list of length n, info list)."""
	ch = ctx.ch
	root = ctx.scratch
	paths = []
	info = []
	fifo_data = ctx.fifo_data = {}
	for i in range(n):
		if i > 0 and ch.flip(0.12, f'dup{i}'):
			j = ch.int(0, i - 1, f'dup_of{i}')
			paths.append(paths[j])
			info.append(dict(info[j], dup_of=j))
			ctx.probe('duplicate_path')
			continue
		kind = ch.weighted([('ok', 83), ('empty', 4), ('header_only', 3), ('trunc_gz', 2), ('crc_gz', 2),
		                    ('nonutf8', 2), ('missing', 2), ('nofasta', 2)], f'kind{i}')
		rng = random.Random(ch.subseed(f'content{i}'))
		# size skew: later files small more often, so that "later finishes first" is natural
		size_class = ch.pick(['m', 's', 'l'], f'size{i}')
		lo, hi = dict(s=(40, 200), m=(200, 900), l=(900, 2500))[size_class]
		contigs = G.make_genome(rng, rng.randint(1, 4), lo, hi)
		contigs = G.decorate(rng, contigs, lower_frac=rng.choice([0, 0, .2]), n_frac=rng.choice([0, 0, .01]))
		ext = ch.pick(list(G.FASTA_EXTS), f'ext{i}')
		gz = ch.flip(0.3, f'gz{i}') or kind in ('trunc_gz', 'crc_gz')
		sub = ch.pick(['', 'a', 'a/b'], f'dir{i}')
		name = f'g{i}{ext}' + ('.gz' if gz else '')
		path = os.path.join(root, sub, name)
		data = G.fasta_bytes(contigs, width=rng.choice([60, 70, 80, 10, 1000]), crlf=rng.random() < .2,
		                     final_newline=rng.random() < .8)
		if kind == 'empty':
			data = b''
		elif kind == 'header_only':
			data = b'>only a header\n'
		elif kind == 'nonutf8':
			data = data.replace(b'len=', b'l\xff\xfen=', 1)
		elif kind == 'nofasta':
			data = b'this is not a fasta file\n' + contigs[0] + b'\n'
		if gz:
			data = G.gz_bytes(data)
			if kind == 'trunc_gz':
				data = data[:max(12, len(data) * 2 // 3)]
			elif kind == 'crc_gz':
				b = bytearray(data)
				b[-6] ^= 0x5a
				data = bytes(b)
		form = 'direct'
		if kind != 'missing':
			G.write_file(path, data)
		else:
			os.makedirs(os.path.dirname(path), exist_ok=True)
		if kind == 'ok' and ch.flip(0.08, f'dotdot{i}'):
			# the path as given goes through a symbolic link to a directory and back up with '..': the OS resolves the
			# link first (-> other/deep/../gX = other/gX); collapsing '..' lexically would point at a different file
			form = 'symlink_dotdot'
			real_dir = os.path.join(root, 'other', f'deep{i}')
			os.makedirs(real_dir, exist_ok=True)
			real_path = os.path.join(root, 'other', name)
			os.replace(path, real_path)
			link = os.path.join(root, f'lnk{i}')
			os.symlink(real_dir, link)
			decoy = G.fasta_bytes(G.make_genome(rng, 1, 100, 300))
			G.write_file(os.path.join(root, name), G.gz_bytes(decoy) if gz else decoy)     # what a lexical collapse would read
			path = os.path.join(link, '..', name)
		elif kind == 'ok' and not gz and len(data) < 60000 and ch.flip(0.04, f'fifo{i}'):
			# a named pipe: size 0, content put into the pipe when (and only when) somebody opens it for reading
			form = 'fifo'
			os.unlink(path)
			os.mkfifo(path)
			fifo_data[path] = data
		paths.append(path)
		info.append(dict(kind=kind, gz=gz, size=len(data), form=form))
	return paths, info


class _Ref:
	"""Reference executions, cached per (path, permanent seam spec)."""

	def __init__(self, ctx, kspec):
		self.ctx = ctx
		self.kspec = kspec
		self.cache = {}

	def get(self, path, spec, plan_ctx):
		from gambit.seq import SequenceFile
		from gambit.sigs.calc import calc_file_signature
		key = (path, tuple(sorted((spec or {}).items())))
		if key in self.cache:
			return self.cache[key]
		plan = iosim.Plan(_NullCtx())
		plan.enabled_transient = False
		if spec:
			plan.set(path, **spec)
		iosim.activate(plan)
		try:
			try:
				sig = calc_file_signature(self.kspec, SequenceFile(path, 'fasta', 'auto'))
				out = ('sig', np.array(sig, copy=True))
			except HarnessError:
				raise
			except Exception as e:
				out = ('unreadable', type(e).__name__)
		finally:
			iosim.deactivate()
		self.cache[key] = out
		return out


class _NullCtx:
	def fault(self, *a, **k):
		pass

	def probe(self, *a, **k):
		pass

	def log(self, *a, **k):
		pass


def _progress(ch):
	from gambit.util.progress import progress_config, TestProgressMeter
	if ch.flip(0.3, 'progress'):
		return progress_config(TestProgressMeter, allow_decrement=False)
	return None


def _check(ctx, files_paths, refs, outcome, fired_pool_fault, transient_fired, desc, model_unreadable=()):
	"""The oracle. outcome = ('ret', value) | ('raised', exc)."""
	n = len(files_paths)
	unreadable = [i for i in range(n) if refs[i][0] == 'unreadable']
	# independent of the code under test: inputs that are unreadable/unparseable by construction (no such
	# file; gzip stream cut before its trailer; non-blank text with no FASTA header line before it)
	for i in model_unreadable:
		if i not in unreadable:
			unreadable.append(i)
			refs = list(refs)
			refs[i] = ('unreadable', 'by construction: ' + desc['kinds'][i])
	unreadable.sort()
	if outcome[0] == 'raised':
		if unreadable or fired_pool_fault or transient_fired:
			return
		exc = outcome[1]
		ctx.violation('C13.raised-without-fault', f'n={n} {desc["mode"]} raised {type(exc).__name__} with every file readable and no fault fired',
		              detail=f'{type(exc).__name__}: {exc}')
	res = outcome[1]
	try:
		m = len(res)
	except Exception as e:
		ctx.violation('C13.length', f'result of type {type(res).__name__} has no length', detail=str(e))
	if unreadable:
		ctx.violation('C13.returned-despite-unreadable',
		              f'n={n} {desc["mode"]}: returned {m} signatures although input {unreadable[0]} cannot be read/parsed ({refs[unreadable[0]][1]})')
	if m != n:
		ctx.violation('C13.length', f'n={n} {desc["mode"]}: returned {m} signatures for {n} files')
	got = []
	for i in range(n):
		try:
			got.append(np.asarray(res[i]))
		except Exception as e:
			ctx.violation('C13.length', f'n={n}: element {i} of result not retrievable', detail=str(e))
	for i in range(n):
		exp = refs[i][1]
		g = got[i]
		if g.dtype == object or g.ndim != 1:
			ctx.violation('C13.wrong-content', f'n={n} {desc["mode"]}: slot {i} is not a signature array ({g.dtype}, ndim {g.ndim})')
		if g.dtype == exp.dtype and np.array_equal(g, exp):
			continue
		# classify: which input does slot i hold?
		holders = [j for j in range(n) if refs[j][0] == 'sig' and got[i].dtype == refs[j][1].dtype and np.array_equal(got[i], refs[j][1])]
		if holders:
			j = holders[0]
			# is input j's signature also at its own slot? then it is duplicated, else misplaced
			own_ok = got[j].dtype == refs[j][1].dtype and np.array_equal(got[j], refs[j][1])
			klass = 'C13.duplicated' if own_ok else 'C13.misplaced'
			ctx.violation(klass, f'n={n} {desc["mode"]}: slot {i} holds the signature of input {j}',
			              detail=f'completion order {desc.get("order")}')
		ctx.violation('C13.wrong-content', f'n={n} {desc["mode"]}: slot {i} differs from the single-file result '
		              f'(dtype {g.dtype} vs {exp.dtype}, len {len(g)} vs {len(exp)})')
	# k-mer parameters carried by the collection, when it claims any
	ks = getattr(res, 'kmerspec', None)
	if ks is not None and ks != desc['kspec']:
		ctx.violation('C13.wrong-content', f'returned collection carries k-mer parameters {ks} instead of {desc["kspec"]}')


MODEL_UNREADABLE = ('missing', 'trunc_gz', 'nofasta')


def _execute(ctx, kspec, paths, refmaker, mode, workers, policy, script, starve, seam_specs, pool_faults,
             interrupt_at, progress, machine, info=None, interleave=False, quantum=200, cancel_at=None, defer_callbacks=False, relative=False):
	"""One execution of calc_file_signatures under the simulator. Returns nothing; raises Violation."""
	from gambit.seq import SequenceFile
	from gambit.sigs.calc import calc_file_signatures
	n = len(paths)
	# relative: the files are named relative to the working directory (the run's scratch directory) - a worker that
	# makes paths absolute must do it the way the OS resolves them
	pre = ctx.scratch.rstrip(os.sep) + os.sep
	files = [SequenceFile(p[len(pre):] if relative and p.startswith(pre) else p, 'fasta', 'auto') for p in paths]      # textual: no '..' is collapsed
	# reference outcomes under the permanent part of the plan
	refs = []
	for i, p in enumerate(paths):
		spec = seam_specs.get(p)
		perm_spec = None
		if spec is not None:
			if spec.get('transient'):
				perm_spec = {k: v for k, v in spec.items() if k not in ('eio_at', 'transient')}
			else:
				perm_spec = spec
		refs.append(refmaker.get(p, perm_spec or None, ctx))
	plan = iosim.Plan(ctx)
	for p, spec in seam_specs.items():
		plan.set(p, **spec)
	sim = sx.Sim(ctx, machine_size=machine, policy=policy, script=script, starve=starve, interleave=interleave, quantum=quantum)
	sim.task_faults = dict(pool_faults)
	sim.interrupt_at = interrupt_at
	sim.defer_callbacks = defer_callbacks
	sim.cancel_at = cancel_at if mode.startswith('exec') else None
	kw = dict(progress=progress)
	if mode == 'seq':
		kw['concurrency'] = None
	elif mode in ('threads', 'processes'):
		kw['concurrency'] = mode
		kw['max_workers'] = workers
	elif mode == 'default':
		kw['max_workers'] = workers           # concurrency left at its default
	else:
		flavour = 'threads' if mode == 'exec-threads' else 'processes'
		kw['executor'] = sx.SimExecutor(workers, flavour, sim=sim)
	nf0 = sum(ctx.faults.values())
	pf0 = ctx.faults['worker_death'] + ctx.faults['interrupt'] + ctx.faults['result_unpicklable'] + ctx.faults['owner_cancelled_queued_tasks']
	sx.activate(sim)
	iosim.activate(plan)
	old_cwd = os.getcwd()
	try:
		try:
			if relative:
				os.chdir(ctx.scratch)
			res = calc_file_signatures(kspec, files, **kw)
			outcome = ('ret', res)
		except HarnessError:
			raise
		except BaseException as e:
			outcome = ('raised', e)
	finally:
		os.chdir(old_cwd)
		iosim.deactivate()
		sx.deactivate()
	ctx.stats['executions'] += 1
	fired_pool = (ctx.faults['worker_death'] + ctx.faults['interrupt'] + ctx.faults['result_unpicklable'] + ctx.faults['owner_cancelled_queued_tasks']) > pf0
	transient = bool(plan.transient_fired)
	fired_any = sum(ctx.faults.values()) > nf0
	order = list(sim.completion_order)
	kinds = [i['kind'] for i in info] if info else ['ok'] * n
	model_unread = [i for i in range(n) if kinds[i] in MODEL_UNREADABLE]
	desc = dict(mode=mode, workers=workers, order=order, kspec=kspec, kinds=kinds)
	unread = sorted(set([i for i in range(n) if refs[i][0] == 'unreadable'] + model_unread))
	oc = 'ret' if outcome[0] == 'ret' else 'raised:' + type(outcome[1]).__name__
	ctx.log('exec', n=n, mode=mode, workers=workers, policy=policy, order=order, unreadable=unread, preemptions=sim.preemptions,
	        seam={os.path.basename(p): sorted(s.items()) for p, s in seam_specs.items() if set(s) - {'short'}},
	        pool_faults=sorted(pool_faults.items()), interrupt_at=interrupt_at, cancel_at=cancel_at, outcome=oc,
	        result=None if outcome[0] != 'ret' else _res_hash(outcome[1]))
	if len(order) >= 2 and order != sorted(order):
		ctx.probe('completion_out_of_submission_order')
	if mode != 'seq' and sim.pool_log:
		ctx.state(n, tuple(order))
	if n >= 2 and ((order != sorted(order)) or fired_any or unread):
		ctx.key(n, mode, workers, tuple(order), tuple(unread), tuple(sorted(pool_faults.items())), interrupt_at, oc)
	if unread:
		ctx.probe('unreadable_input_present')
		if outcome[0] == 'raised':
			ctx.probe('failed_as_required')
	_check(ctx, paths, refs, outcome, fired_pool, transient, desc, model_unread)


def _res_hash(res):
	try:
		return [blob_hash(np.asarray(s)) for s in res]
	except Exception:
		return 'unhashable'


def _merge(old, fault):
	"""A file carries at most one fault (the later one wins) plus, optionally, short reads / its pipe content."""
	out = dict(fault)
	for keep in ('short', 'fifo'):
		if old and keep in old:
			out[keep] = old[keep]
	return out


def _draw_seam_fault(ch, paths, label):
	p = ch.pick(paths, label + '.file')
	kind = ch.weighted([('eio', 4), ('eacces', 2), ('enoent', 1), ('eio_transient', 3)], label + '.kind')
	if kind == 'eio':
		return p, dict(eio_at=ch.int(1, 4, label + '.k'), transient=False)
	if kind == 'eio_transient':
		return p, dict(eio_at=ch.int(1, 3, label + '.k'), transient=True)
	if kind == 'eacces':
		return p, dict(open_error=errno.EACCES)
	return p, dict(open_error=errno.ENOENT)


def scenario(ctx):
	ch = ctx.ch
	sx.install()
	iosim.install()
	exhaustive = ((ctx.run // 4) % 4 == 0)      # every fourth run of every interpreter environment (env index = run % 4)
	thorough = ctx.tier == 'thorough'
	kspec = _kspec(ch)
	if exhaustive:
		n = ch.int(0, 5, 'n_files')
		if thorough and n == 5 and ch.flip(0.35, 'n6'):
			n = 6      # 720 orders x 7 fault placements: a third of the largest worlds
	else:
		n = ch.int(0, 12 if thorough else 8, 'n_files')
	paths, info = _build_world(ctx, n)
	large = (not exhaustive) and n >= 3 and ch.flip(0.03, 'large_batch')
	if large:
		# a batch far beyond the usual size (thresholds such as "sort by size above 500 files" or "chunk work above 200
		# files per worker" only engage here): the few generated files repeated many times in a seeded order
		brng = random.Random(ch.subseed('large_batch_order'))
		N = ch.pick([520, 610, 1040], 'large_n')
		order = [brng.randrange(n) for _ in range(N)]
		paths = [paths[j] for j in order]
		info = [info[j] for j in order]
		n = N
		ctx.probe('large_batch')
	ctx.log('world', k=kspec.k, prefix=kspec.prefix_str, n=n,
	        files=[(os.path.relpath(p, ctx.scratch), i['kind'], i['size']) for p, i in zip(paths, info)][:40])
	refmaker = _Ref(ctx, kspec)
	short = ch.flip(0.5, 'short_reads')
	base_specs = {}
	if short:
		for p in sorted(set(paths)):
			base_specs[p] = {'short': ch.subseed('short:' + os.path.basename(p))}
	for p, data in ctx.fifo_data.items():
		base_specs[p] = dict(base_specs.get(p, {}), fifo=data)
		ctx.probe('named_pipe_input')

	if exhaustive:
		mode = ch.pick(['processes', 'threads', 'exec-threads', 'exec-processes', 'default'], 'mode')
		workers = n + ch.int(0, 3, 'extra_workers') if n else 1
		fault_kind = ch.pick(['eacces', 'eio'], 'xfault')
		count = 0
		for perm in itertools.permutations(range(n)):
			for fpos in [None] + list(range(n)):
				specs = {p: dict(s) for p, s in base_specs.items()}
				if fpos is not None:
					extra = dict(open_error=errno.EACCES) if fault_kind == 'eacces' else dict(eio_at=1, transient=False)
					specs[paths[fpos]] = _merge(specs.get(paths[fpos]), extra)
				_execute(ctx, kspec, paths, refmaker, mode, workers, 'script', list(perm), None, specs, {}, None,
				         None, workers, info)
				count += 1
		ctx.stats['exhaustive_worlds'] += 1
		ctx.stats['exhaustive_executions'] += count
		ctx.sample = dict(kind='exhaustive', n=n, mode=mode, workers=workers, executions=count)
		return

	n_exec = ch.int(1, 6, 'n_exec') if not large else ch.int(1, 2, 'n_exec_large')
	for e in range(n_exec):
		L = f'e{e}'
		mode = ch.pick(['processes', 'threads', 'seq', 'exec-threads', 'exec-processes', 'default'], L + '.mode')
		workers = ch.pick([None] + list(range(1, 17)), L + '.workers')
		if mode.startswith('exec') and workers is None:
			workers = ch.int(1, 16, L + '.workers2')
		machine = ch.int(1, 16, L + '.machine')
		policy = ch.pick(['uniform', 'lifo', 'fifo', 'starve'], L + '.policy')
		starve = ch.int(0, max(0, n - 1), L + '.starve') if policy == 'starve' else None
		specs = {p: dict(s) for p, s in base_specs.items()}
		if n and ch.flip(0.3, L + '.fault1'):
			p, s = _draw_seam_fault(ch, paths, L + '.f1')
			specs[p] = _merge(specs.get(p), s)
			if ch.flip(0.25, L + '.fault2'):
				p, s = _draw_seam_fault(ch, paths, L + '.f2')
				specs[p] = _merge(specs.get(p), s)
		pool_faults = {}
		if n and ch.flip(0.10, L + '.die'):
			pool_faults[ch.int(0, n - 1, L + '.die_task')] = 'die'
		if n and ch.flip(0.03, L + '.unpick'):
			pool_faults[ch.int(0, n - 1, L + '.unpick_task')] = 'unpicklable'
		interrupt_at = ch.int(1, max(1, n), L + '.int_at') if (n and ch.flip(0.07, L + '.interrupt')) else None
		progress = _progress(ch)
		# thread flavour: half of the executions pre-empt task bodies at line events instead of running them atomically
		# (no interleaving when a named pipe is among the inputs: two readers parked on one pipe is a property of pipes, not of gambit)
		interleave = mode in ('threads', 'exec-threads') and n <= 50 and not ctx.fifo_data and ch.flip(0.4, L + '.interleave')
		quantum = ch.pick([60, 12, 500], L + '.quantum') if interleave else 200
		cancel_at = ch.int(1, max(1, n), L + '.cancel_at') if (n and mode.startswith('exec') and ch.flip(0.08, L + '.cancel')) else None
		defer = mode != 'seq' and ch.flip(0.5, L + '.defer_callbacks')
		relative = ch.flip(0.3, L + '.relative_paths')
		_execute(ctx, kspec, paths, refmaker, mode, workers, policy, None, starve, specs, pool_faults,
		         interrupt_at, progress, machine, info, interleave, quantum, cancel_at, defer, relative)
	ctx.sample = dict(kind='sampled', n=n, executions=n_exec)
