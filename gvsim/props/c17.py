"""C17 - the tree command outputs the UPGMA dendrogram of the pairwise distances.

System: `gambit tree ...` in-process (positional / list file / -s; -k/-p; -c) with S1/S2/S7 held.
Oracle: independent Newick reader + average-linkage reference model that branches on every tie.
DESIGN 4.6.
"""
import os
import random

import numpy as np

from ..engine import HarnessError, blob_hash
from ..harness import Knobs, run_cli
from ..oracles import newick
from ..oracles.labels import label as label_model
from ..oracles.upgma import admissible_cophenetics
from ..seams import omp
from ..worlds import genomes as G
from ..worlds import queries as Q
from .c08 import draw_kspec
from .c16 import SigCache, write_sigfile

PROP = 'C17'
LEVEL = 'exploration'
RUNS = {'quick': 400, 'thorough': 6000}

RULE = ('runs generated from the seed: a pool of 2-8 genomes incl. identical and equidistant ones (plain + gzip files), then 5-10 tree commands with drawn input channel '
        '(positional / list file + --ldir / signature file), 2-7 inputs with repeats, -k/-p given or absent, -c, progress, pool completion policy and OpenMP hand-out. '
        'The Newick output is read by an independent reader and compared with every admissible average-linkage clustering of the expected distance matrix. '
        'A case is (channel, multiset+order of inputs, tie structure, cores, completion order); non-trivial = n>=3 or a zero/tied distance present. Further drawn dimensions: 8-14 leaves in a few commands, injected faults (fail-or-fully-correct), failing commands as context, homonym files (identical labels), symlinked inputs, path-like stored ids, big-endian signature files (refuse-or-correct), list files without --ldir, decoy working directory, tuning-knob defaults, python -O in every fourth run.')
STATES_MEASURE = 'distinct OpenMP schedule signatures of whole commands'

REAL = ['click command gambit tree', 'calc_file_signatures', 'jaccarddist_pairwise + compiled kernel', 'scipy average linkage', 'linkage_to_bio_tree', 'Bio.Phylo newick writer']
STUB = ['worker pool (gvsim.seams.executor)', 'OpenMP dynamic dispenser (native/gompsim.c)', 'reads of genome files (short reads)']
ASSUMPTIONS = [
	'path length tolerance = (#edges on the path) x 0.5e-5 + 1e-9 (covers a five-decimal Newick writer as well as the installed eight-significant-digit one)',
	'any clustering obtainable by breaking exact ties either way is admissible; tie search capped at 500 leaves of the search tree, beyond which the cophenetic clause is skipped for that command and counted',
	'the clustering arithmetic itself is a pure function; it is covered here only because the oracle needs it to decide leaf<->genome attachment',
]


def envs(tier):
	base = {'OMP_WAIT_POLICY': 'PASSIVE', 'GOMP_SPINCOUNT': '0', 'OMP_DYNAMIC': 'FALSE'}
	# every fourth run under `python -O`: results must not depend on assert statements being executed
	return [dict(preload=['gompsim.so'], env=base)] * 3 + [dict(preload=['gompsim.so'], env=dict(base, PYTHONOPTIMIZE='1'))]


class PoolWorld:
	"""refworld stand-in for Q.build (only .kspec and .genomes are used)."""

	def __init__(self, kspec, genomes):
		self.kspec = kspec
		self.genomes = genomes


def check_tree(ctx, desc, text, labels, dmat):
	"""labels: expected leaf labels (input order); dmat: n x n expected distances (float)."""
	n = len(labels)
	try:
		root = newick.parse(text)
	except newick.NewickError as e:
		ctx.violation('C17.shape', f'{desc}: output is not Newick: {e}', detail=text[:300])
	# shape
	leaves = []
	depth_of = {}
	nedges = {}

	def walk(node, depth, edges, is_root):
		if node.length is not None and node.length < 0:
			ctx.violation('C17.negative', f'{desc}: negative branch length {node.length}')
		if not is_root and node.length is None:
			ctx.violation('C17.shape', f'{desc}: a non-root node has no branch length')
		d = depth + (0.0 if is_root or node.length is None else node.length)
		e = edges + (0 if is_root else 1)
		if node.children:
			if len(node.children) != 2:
				ctx.violation('C17.shape', f'{desc}: an internal node has {len(node.children)} children')
			for c in node.children:
				walk(c, d, e, False)
		else:
			leaves.append(node)
			depth_of[id(node)] = d
			nedges[id(node)] = e
	if n == 1:
		ctx.violation('C17.shape', f'{desc}: single input')
	walk(root, 0.0, 0, True)
	got = sorted(str(l.name) for l in leaves)
	if got != sorted(labels):
		ctx.violation('C17.leaves', f'{desc}: leaves {got} are not the input labels {sorted(labels)}')
	depths = [depth_of[id(l)] for l in leaves]
	tol_leaf = max(nedges.values()) * 0.5e-5 + 1e-9
	if max(depths) - min(depths) > 2 * tol_leaf:
		ctx.violation('C17.not-ultrametric', f'{desc}: leaves are not equidistant from the root: depths {depths}')
	# pairwise path lengths
	paths = {}

	def collect(node, is_root):
		"""returns list of (leaf, dist from node, edges)"""
		if not node.children:
			return [(node, 0.0, 0)]
		subs = []
		for c in node.children:
			subs.append([(l, d + (c.length or 0.0), e + 1) for l, d, e in collect(c, False)])
		for a in subs[0]:
			for b in subs[1]:
				paths[(id(a[0]), id(b[0]))] = paths[(id(b[0]), id(a[0]))] = (a[1] + b[1], a[2] + b[2])
		return subs[0] + subs[1]
	collect(root, True)
	# assign leaves to inputs: labels may repeat (same file twice) -> try to match within groups
	by_label = {}
	for i, lab in enumerate(labels):
		by_label.setdefault(lab, []).append(i)
	cophs, complete = admissible_cophenetics(dmat, cap=500)
	if not complete:
		ctx.probe('tie_search_capped')
		return
	# Leaves to inputs: labels may repeat (the same file twice, homonym files), so a label-preserving bijection has to be
	# found. Backtracking with pruning: input i may sit on leaf l if l carries i's label, is unused, and its path lengths
	# to all already placed inputs fit.
	leaf_ids = [id(l) for l in leaves]
	leaf_label = {id(l): str(l.name) for l in leaves}
	best = [None]

	def fits(coph):
		placed = {}
		used = set()
		worst = [0.0]

		def place(i):
			if i == n:
				return True
			for lid in leaf_ids:
				if lid in used or leaf_label[lid] != labels[i]:
					continue
				ok = True
				for j, lj in placed.items():
					plen, ne = paths[(lid, lj)]
					err = abs(plen - 2 * coph[i][j])
					if err > ne * 0.5e-5 + 1e-9:
						ok = False
						worst[0] = max(worst[0], err)
						break
				if ok:
					placed[i] = lid
					used.add(lid)
					if place(i + 1):
						return True
					del placed[i]
					used.discard(lid)
			return False
		res = place(0)
		if not res and (best[0] is None or worst[0] < best[0][0]):
			best[0] = (worst[0], coph)
		return res
	for coph in cophs:
		if fits(coph):
			return
	best = best[0] or (float('nan'), None)
	ctx.violation('C17.cophenetic', f'{desc}: leaf-to-leaf path lengths match no admissible UPGMA clustering of the expected distances (n={n}, worst deviation {best[0]:.6g})',
	              detail=f'newick {text.strip()[:400]}\nexpected distances {[[round(x, 6) for x in r] for r in dmat]}')


def scenario(ctx):
	ch = ctx.ch
	if not omp.available():
		raise HarnessError('C17 needs the gompsim shim preloaded')
	from gambit.kmers import KmerSpec, DEFAULT_KMERSPEC
	from gambit.metric import jaccarddist
	kspec = draw_kspec(ch, default_every=10)
	rng = random.Random(ch.subseed('pool_genomes'))
	# founders so that the pool has relatives, identical genomes and (via shared founder + equal mutation sets) near ties
	founders = [dict(contigs=G.make_genome(rng, rng.randint(1, 3), 300, 2000)) for _ in range(rng.randint(1, 3))]
	pool = Q.build(ctx, random.Random(ch.subseed('pool')), PoolWorld(kspec, founders), ch.int(2, 8, 'n_pool'))
	cache = SigCache(pool)
	ctx.log('world', k=kspec.k, prefix=kspec.prefix_str, pool=[(g['stem'] + g['ext'], blob_hash(g['sig'])) for g in pool.genomes])
	all_paths = [g['plain'] for g in pool.genomes] + [g['gz'] for g in pool.genomes] + [g['alias'] for g in pool.genomes if g['alias']] + [g['link'] for g in pool.genomes]
	npool = len(pool.genomes)
	omp.set_threads(ch.int(1, 16, 'initial_threads'))
	n_cmd = ch.int(5, 10, 'n_cmd')
	for c in range(n_cmd):
		L = f'c{c}'
		channel = ch.pick(['positional', 'listfile', 'sigfile'], L + '.channel')
		n = ch.int(2, 7, L + '.n')
		if ch.flip(0.15 if ctx.tier == 'thorough' else 0.04, L + '.many_leaves'):
			n = ch.int(8, 14, L + '.n_many')      # tie search is capped; the cophenetic clause is skipped (and counted) beyond the cap
		idxs = [ch.int(0, npool - 1, f'{L}.g{i}') for i in range(n)]
		cores = ch.pick([None, 1, 2, 3, 4, 8, 16], L + '.cores')
		progress = ch.flip(0.5, L + '.progress')
		kgiven = ch.flip(0.4, L + '.kgiven')
		knobs = Knobs(ch, L, with_chunk=False, faults=True)
		needs_cwd = None
		fault_paths = None
		foreign = False
		if ch.flip(0.1, L + '.failing_before'):
			fk = Knobs(ch, L + '.fail', with_chunk=False)
			fres, _ = run_cli(ctx, ['tree', '-k', str(kspec.k), '-p', kspec.prefix_str, '--no-progress', pool.genomes[0]['plain'], pool.broken], fk)
			ctx.fault('failing_command_before', status=fres.status)
			ctx.log('failing_cmd', status=fres.status)
		if channel == 'sigfile':
			eff = kspec
			foreign = ch.flip(0.08, L + '.bigendian')
			path, labels = write_sigfile(ctx, pool, idxs, kspec, f'tree-{c}.gs', int_ids=ch.flip(0.2, L + '.intids'),
			                             id_style=ch.int(0, 3, L + '.idstyle'), big_endian=foreign)
			args_in = ['-s', path]
			kargs = []   # -k/-p accompany genome files only
		else:
			if kgiven:
				eff = KmerSpec(ch.pick([5, 6, 7, 8], L + '.k'), ch.pick(['AT', 'GCA', 'TT', 'CG'], L + '.p'))
				kargs = ['-k', str(eff.k), '-p', eff.prefix_str]
			else:
				eff = DEFAULT_KMERSPEC
				kargs = []
			forms = [ch.pick(['plain', 'gz', 'plain', 'gz', 'alias', 'link'], f'{L}.f{i}') for i in range(n)]
			paths = [pool.genomes[g][f] or pool.genomes[g]['plain'] for g, f in zip(idxs, forms)]
			if channel == 'positional':
				args_in = list(paths)
				labels = [label_model(p) for p in paths]
			else:
				base = ch.pick([pool.root, ctx.scratch], L + '.ldir')
				rels = [os.path.relpath(p, base) for p in paths]
				lf = os.path.join(ctx.scratch, f'tlist-{c}.txt')
				with open(lf, 'w') as f:
					f.write('\n'.join(rels) + '\n')
				args_in = ['-l', lf, '--ldir', base]
				if ch.flip(0.3, L + '.no_ldir'):
					args_in = ['-l', lf]
					needs_cwd = base
				labels = [label_model(r) for r in rels]
			fault_paths = paths
		args = ['tree'] + kargs + (['-c', str(cores)] if cores is not None else []) + ['--progress' if progress else '--no-progress'] + args_in
		cwd = pool.decoy_cwd if ch.flip(0.5, L + '.decoy_cwd') else None
		cwd = needs_cwd or cwd
		res, h = run_cli(ctx, args, knobs, short_paths=all_paths, short_seed=ch.subseed(L + '.short'), cwd=cwd, ch=ch, label=L, fault_paths=fault_paths)
		ctx.stats['executions'] += 1
		order = list(h.sim.completion_order)
		text = res.stdout
		desc = f'tree {channel} n={n} k/p {"given" if kargs else "absent"} -c {cores}'
		sigs = [cache.get(g, eff) for g in idxs]
		dmat = [[0.0 if i == j else float(jaccarddist(sigs[i], sigs[j])) for j in range(n)] for i in range(n)]
		flat = [dmat[i][j] for i in range(n) for j in range(i + 1, n)]
		has_tie = len(set(flat)) < len(flat) or 0.0 in flat
		ctx.log('cmd', channel=channel, genomes=idxs, eff=(eff.k, eff.prefix_str), cores=cores, progress=progress, status=res.status, order=order,
		        out=blob_hash(text), omp=h.omp_sig, ties=has_tie, **knobs.describe())
		if has_tie:
			ctx.probe('zero_or_tied_distance')
		if len(order) >= 2 and order != sorted(order):
			ctx.probe('completion_out_of_submission_order')
		if n >= 3 or has_tie:
			ctx.key(channel, tuple(idxs), has_tie, cores, tuple(order))
		if h.fault_fired and res.status != 0:
			ctx.probe('command_failed_under_fault')
			continue
		if h.fault_fired:
			ctx.probe('command_succeeded_under_fault')
		if res.status != 0 and foreign:
			ctx.probe('foreign_byte_order_refused')
			continue
		if res.status != 0:
			ctx.violation('C17.failed', f'{desc}: exit status {res.status} ({type(res.exc).__name__ if res.exc else "-"})', detail=f'{res.exc!r} {res.stderr[-400:]}')
		check_tree(ctx, desc, text, labels, dmat)
	ctx.sample = dict(n_pool=npool, commands=n_cmd)
