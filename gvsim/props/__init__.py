"""One scenario module per claimed property."""
import importlib

CLAIMED = ['C05', 'C08', 'C09', 'C13', 'C16', 'C17', 'C18', 'C19', 'C20']


def get(prop):
	return importlib.import_module(f'gvsim.props.{prop.lower()}')
