"""C05 - bulk and parallel distance computations agree bit-for-bit with the pairwise one.

System: gambit.metric.jaccarddist_array/_matrix/_pairwise with the OpenMP hand-out held by the
gompsim shim (seam S2) and every tuning knob drawn per execution.  Oracle: the two-signature entry
point of the same kernel, cell by cell, compared as 32-bit patterns.  DESIGN 4.2.
"""
import os
import random

import numpy as np

from ..engine import HarnessError, blob_hash
from ..seams import omp
from ..worlds import sigs as W

PROP = 'C05'
LEVEL = 'exploration'
RUNS = {'quick': 6000, 'thorough': 90000}
DTYPES = ['u2', 'u4', 'u8', 'i2', 'i4', 'i8']

RULE = ('runs generated from the seed: a world of 1-40 reference and 1-6 query signatures (sorted unique arrays incl. empty, '
        'singleton, equal, nested, interleaved), then 6-14 executions of jaccarddist_array/_matrix/_pairwise with drawn container '
        '(SignatureArray, SignatureList, plain list, HDF5Signatures on scratch disk none/gzip/lzf), dtype pair (6x6), chunk size, '
        'index selection with repeats, caller-supplied/poisoned/strided out buffer, OpenMP team size 1..16 (sometimes left over from the '
        'previous execution) and a seeded dynamic hand-out (thread policy x iteration order). A case is (function, container, dtype pair, '
        'chunk regime, index regime, out regime, team size, schedule signature); non-trivial = >=2 team threads executed iterations or chunk < n references. Further drawn dimensions: mixed-width list containers, queries wider than the references with out-of-range indices, queries taken as a subset of the reference container, one-shot read faults on file-backed references followed by re-use, tuning-knob defaults; thorough: up to 200 references.')
STATES_MEASURE = 'distinct OpenMP schedule signatures (hash of every (region, iteration, thread) hand-out of an execution)'

REAL = ['gambit.metric (jaccarddist_array/_matrix/_pairwise, chunking, index selection, out handling)', 'compiled kernel gambit._cython.metric',
        'libgomp team creation, barrier and thread pool (GOMP_parallel forwarded)', 'gambit.sigs.base containers and indexing', 'h5py/libhdf5 reads for file-backed references']
STUB = ['the dynamic work-share dispenser GOMP_loop_nonmonotonic_dynamic_start/_next (native/gompsim.c): seeded, one thread between gates at a time']
ASSUMPTIONS = [
	'pre-emption points are iteration boundaries: a race inside one iteration body of the native loop cannot be provoked (no Cython to instrument it)',
	'the two-signature function jaccarddist is the reference for each cell (agreement is the property; the value itself is C02)',
	'signed index arrays hold non-negative values, as the API documents',
]

WORKER_ARGS = {}


def envs(tier):
	return [dict(preload=['gompsim.so'], env={'OMP_WAIT_POLICY': 'PASSIVE', 'GOMP_SPINCOUNT': '0', 'OMP_DYNAMIC': 'FALSE'})]


def _bits(a):
	return np.ascontiguousarray(a, dtype=np.float32).view(np.uint32)


class World:
	pass


def _make_container(ctx, ch, kind, arrays, dtype, label, typed=None):
	"""Build the reference container of the requested kind. Returns (container, closer)."""
	from gambit.sigs.base import SignatureArray, SignatureList, dump_signatures, load_signatures
	from gambit.kmers import KmerSpec
	if typed is None or kind not in ('list', 'SignatureList'):
		typed = [a.astype(dtype) for a in arrays]
	kspec = KmerSpec(11, 'ATGAC')
	if kind == 'SignatureArray':
		return SignatureArray(typed, kspec, dtype=np.dtype(dtype)), None
	if kind == 'SignatureList':
		return SignatureList(typed, kspec, dtype=np.dtype(dtype)), None
	if kind == 'list':
		return list(typed), None
	if kind.startswith('hdf5'):
		comp = kind.split(':')[1]
		path = os.path.join(ctx.scratch, f'{label}.gs')
		sa = SignatureArray(typed, kspec, dtype=np.dtype(dtype))
		dump_signatures(path, sa, compression=None if comp == 'none' else comp)
		h = load_signatures(path)
		return h, h.close
	raise HarnessError(kind)


def _out_buffer(ch, shape, label):
	"""Returns (out or None, regime, poison_bits or None)."""
	regime = ch.pick(['none', 'fresh', 'poisoned', 'strided', 'fortran'], label)
	if regime == 'none':
		return None, regime, None
	poison = np.uint32(0x7fc0dead)
	if regime == 'fresh':
		return np.zeros(shape, np.float32), regime, None
	if regime == 'poisoned':
		a = np.empty(shape, np.float32)
		a.view(np.uint32)[...] = poison
		return a, regime, poison
	if regime == 'strided':
		big_shape = tuple(2 * s for s in shape)
		big = np.empty(big_shape, np.float32)
		big.view(np.uint32)[...] = poison
		view = big[tuple(slice(None, None, 2) for _ in shape)]
		return view, regime, poison
	# fortran order (only differs for 2-D)
	a = np.empty(shape, np.float32, order='F')
	a[...] = np.nan
	u = a.view(np.uint32) if a.ndim < 2 else None
	return a, regime, None


def _indices(ch, n, label, allow_none=True):
	"""Selection with repeats, as list or ndarray of a drawn integer dtype."""
	regime = ch.pick((['none'] if allow_none else []) + ['list', 'ndarray', 'ndarray_small'], label)
	if regime == 'none':
		return None, regime
	m = ch.int(0, n + 3, label + '.len')
	rng = random.Random(ch.subseed(label + '.seed'))
	idx = [rng.randrange(n) for _ in range(m)]
	if regime == 'list':
		return idx, regime
	if regime == 'ndarray':
		return np.array(idx, dtype=np.intp), regime
	return np.array(idx, dtype=ch.pick(['i4', 'u2', 'i8', 'u8'], label + '.dt')), regime


def _expected_matrix(queries_typed, refs_typed, sel):
	from gambit.metric import jaccarddist
	cols = range(len(refs_typed)) if sel is None else [int(i) for i in sel]
	out = np.empty((len(queries_typed), len(cols)), np.float32)
	for i, q in enumerate(queries_typed):
		for j, c in enumerate(cols):
			out[i, j] = jaccarddist(q, refs_typed[c])
	return out


def _guard(ctx, desc, f, *a, **kw):
	"""The statement says the bulk computations *return* the right cells for every container, selection and
	buffer: an exception on well-formed input is a violation, not a harness error."""
	try:
		return f(*a, **kw)
	except HarnessError:
		raise
	except Exception as e:
		name = getattr(f, '__name__', str(f))
		idx = kw.get('ref_indices', kw.get('indices'))
		if idx is None and name == '__getitem__' and a:
			idx = a[0]
		idt = f'{type(idx).__name__}[{getattr(idx, "dtype", "")}]' if idx is not None else 'None'
		ctx.violation('C05.raised', f'{name} on {desc.get("container")} with index {idt} raised {type(e).__name__}',
		              detail=f'{type(e).__name__}: {e}; {desc}')


def scenario(ctx):
	ch = ctx.ch
	if not omp.available():
		raise HarnessError('C05 needs the gompsim shim preloaded')
	from gambit.metric import jaccarddist_array, jaccarddist_matrix, jaccarddist_pairwise, jaccarddist
	from gambit.util.progress import progress_config, TestProgressMeter

	qdt = ch.pick(DTYPES, 'query_dtype')
	rdt = ch.pick(DTYPES, 'ref_dtype')
	rng = random.Random(ch.subseed('world'))
	universe = W.universe_for(rng, [qdt, rdt])
	nref = ch.pick([5, 1, 2, 3, 8, 13, 23, 40] + ([90, 200] if ctx.tier == 'thorough' else []), 'nref')
	nq = ch.int(1, 6, 'nq')
	refs = W.make_collection(rng, nref, universe)
	# queries: some taken from the references (zero distances), some fresh
	queries = []
	for i in range(nq):
		if rng.random() < 0.3:
			queries.append(refs[rng.randrange(nref)].copy())
		else:
			queries.extend(W.make_collection(rng, 1, universe))
	# a query stored in a wider integer type may hold k-mer indices the references' type cannot represent
	rmax, qmax = np.iinfo(rdt).max, np.iinfo(qdt).max
	if qmax > rmax and ch.flip(0.4, 'query_beyond_ref_range'):
		for i in range(len(queries)):
			if rng.random() < 0.6:
				hi = min(qmax, rmax * 4 + 3)
				extra = np.array(sorted({rng.randrange(rmax + 1, hi + 1) for _ in range(rng.randint(1, 6))}), dtype=np.uint64)
				queries[i] = np.union1d(queries[i], extra).astype(np.uint64)
		ctx.probe('query_values_beyond_reference_dtype_range')
	refs_t = [a.astype(rdt) for a in refs]
	queries_t = [a.astype(qdt) for a in queries]
	# list-type containers may hold signatures of different integer widths (each wide enough for its own values)
	mixed = ch.flip(0.3, 'mixed_widths')
	refs_mixed = None
	if mixed:
		refs_mixed = []
		for i, a in enumerate(refs):
			mx = int(a.max()) if len(a) else 0
			fits = [d for d in DTYPES if np.iinfo(d).max >= mx]
			# narrow ones first in the list more often: a packing routine that trusts the first element is the classic slip
			d = fits[0] if (i == 0 or rng.random() < 0.4) and mx < 2 ** 15 else rng.choice(fits)
			refs_mixed.append(a.astype(d))
		if len(refs) and int(refs[0].max() if len(refs[0]) else 0) >= 2 ** 15 and universe > 2 ** 16:
			# make the first signature narrow: small values only
			small = W.random_set(rng, 4096, rng.randint(1, 40))
			refs[0] = small
			refs_t[0] = small.astype(rdt)
			refs_mixed[0] = small.astype('u2')
	ctx.log('world', nref=nref, nq=nq, universe=universe, qdt=qdt, rdt=rdt, sizes=[len(a) for a in refs],
	        h=blob_hash(np.concatenate(refs + queries)) if refs else '')
	omp.set_threads(ch.int(1, 16, 'initial_threads'))   # a run never inherits the setting of an earlier run
	containers = {}
	closers = []

	def container(kind):
		if kind not in containers:
			c, closer = _make_container(ctx, ch, kind, refs, rdt, f'refs-{len(containers)}', typed=refs_mixed)
			if refs_mixed is not None and kind in ('list', 'SignatureList'):
				ctx.probe('mixed_width_list_container')
			containers[kind] = c
			if closer:
				closers.append(closer)
		return containers[kind]

	try:
		n_exec = ch.int(6, 14, 'n_exec')
		for e in range(n_exec):
			L = f'e{e}'
			fn = ch.pick(['matrix', 'array', 'pairwise'], L + '.fn')
			kind = ch.pick(['SignatureArray', 'hdf5:none', 'SignatureList', 'list', 'hdf5:gzip', 'hdf5:lzf'], L + '.container')
			if ch.flip(0.7, L + '.set_threads'):
				t = ch.pick([2, 1, 3, 4, 5, 7, 8, 11, 16], L + '.threads')
				omp.set_threads(t)
			else:
				ctx.probe('thread_setting_left_over')
			team = omp.get_max_threads()
			tp = ch.pick(omp.THREAD_POLICIES, L + '.tpol')
			op = ch.pick(omp.ORDER_POLICIES, L + '.opol')
			oseed = ch.subseed(L + '.omp_seed')
			refs_c = container(kind)
			progress = progress_config(TestProgressMeter, allow_decrement=False) if ch.flip(0.2, L + '.progress') else None
			desc = dict(fn=fn, container=kind, team=team, tpol=tp, opol=op)
			chunk_regime = idx_regime = out_regime = None
			from ..harness import knob_defaults
			# file-backed references: sometimes a read fails once (I/O error / Ctrl-C) in a first attempt; the attempt may
			# fail, and the same open collection must then still give the right cells
			if kind.startswith('hdf5') and ch.flip(0.2, L + '.read_fault'):
				from ..seams.h5fault import read_fault
				exc_t = ch.pick([OSError, KeyboardInterrupt], L + '.read_fault_exc')
				with read_fault(ch.int(1, 6, L + '.read_fault_k'), exc_t) as rf:
					try:
						jaccarddist_matrix(list(queries_t[:2]), refs_c, chunksize=ch.pick([None, 2, 3], L + '.rf_chunk'))
						sub = refs_c[[nref - 1, 0]] if nref > 1 else refs_c[[0]]
						[np.asarray(sub[i]) for i in range(len(sub))]
					except (OSError, KeyboardInterrupt):
						pass
				if rf.fired:
					ctx.fault('hdf5_read_error_once' if exc_t is OSError else 'hdf5_read_interrupted_once')
			from ..harness import knob_defaults
			with omp.Armed(ctx, oseed, tp, op) as armed, knob_defaults(ctx, ch, L):
				if fn == 'array':
					q = ch.int(0, nq - 1, L + '.q')
					# optionally a slice / selection of the container (exercises re-based bounds)
					sub = ch.pick(['whole', 'slice', 'selection'], L + '.sub')
					if sub == 'slice' and not isinstance(refs_c, list):
						a = ch.int(0, nref, L + '.a')
						b = ch.int(a, nref, L + '.b')
						target = _guard(ctx, dict(desc, sub='slice'), refs_c.__getitem__, slice(a, b))
						sel = list(range(a, b))
					elif sub == 'selection' and not isinstance(refs_c, list):
						sel, _ = _indices(ch, nref, L + '.sel', allow_none=False)
						if isinstance(sel, np.ndarray):
							sel = sel.astype(np.intp)   # how a collection reacts to index dtypes is C20's business
						target = _guard(ctx, dict(desc, sub=f'selection {getattr(sel, "dtype", "list")}'), refs_c.__getitem__, sel)
						sel = [int(i) for i in sel]
					else:
						sub = 'whole'
						target = refs_c
						sel = list(range(nref))
					out, out_regime, poison = _out_buffer(ch, (len(sel),), L + '.out')
					res = _guard(ctx, desc, jaccarddist_array, queries_t[q], target, out=out)
					exp = _expected_matrix([queries_t[q]], refs_t, sel)[0]
					idx_regime = sub
					desc.update(q=q, sub=sub, n=len(sel))
				elif fn == 'matrix':
					sel, idx_regime = _indices(ch, nref, L + '.ref_indices')
					ncols = nref if sel is None else len(sel)
					cs = ch.pick(['none', 'small', 'exact', 'big'], L + '.chunk')
					chunksize = dict(none=None, small=ch.int(1, max(1, ncols), L + '.cs'), exact=max(1, ncols), big=ncols + ch.int(1, 3, L + '.cs2'))[cs]
					chunk_regime = cs if cs != 'small' else ('small' if chunksize < ncols else 'exact')
					qkind = ch.pick(['list', 'SignatureList', 'SignatureArray', 'subset_of_refs'], L + '.qcontainer')
					queries_used = queries_t
					if qkind == 'subset_of_refs' and not isinstance(refs_c, list):
						# the queries are themselves a selection taken from the reference container (all-vs-subset use)
						qsel, _ = _indices(ch, nref, L + '.qsel', allow_none=False)
						if len(qsel) == 0:
							qsel = [0]
						qsel = np.asarray(qsel).astype(np.intp)
						qs = _guard(ctx, dict(desc, sub='query subset'), refs_c.__getitem__, qsel)
						queries_used = [refs_t[int(i)] for i in qsel]
						ctx.probe('queries_are_subset_of_reference_container')
					elif qkind in ('list', 'subset_of_refs'):
						qs = list(queries_t)
					else:
						from gambit.sigs.base import SignatureArray, SignatureList
						from gambit.kmers import KmerSpec
						qs = (SignatureList if qkind == 'SignatureList' else SignatureArray)(queries_t, KmerSpec(11, 'ATGAC'), dtype=np.dtype(qdt))
					out, out_regime, poison = _out_buffer(ch, (len(queries_used), ncols), L + '.out')
					desc.update(idx=idx_regime, chunksize=chunksize)
					res = _guard(ctx, desc, jaccarddist_matrix, qs, refs_c, ref_indices=sel, out=out, chunksize=chunksize, progress=progress)
					exp = _expected_matrix(queries_used, refs_t, sel)
					desc.update(chunksize=chunksize, ncols=ncols, idx=idx_regime, n=ncols)
					if chunksize is not None and chunksize < ncols:
						ctx.probe('chunk_smaller_than_references')
				else:
					sel, idx_regime = _indices(ch, nref, L + '.indices')
					m = nref if sel is None else len(sel)
					flat = ch.flip(0.5, L + '.flat')
					shape = (m * (m - 1) // 2,) if flat else (m, m)
					out, out_regime, poison = _out_buffer(ch, shape, L + '.out')
					desc.update(idx=idx_regime, flat=flat)
					res = _guard(ctx, desc, jaccarddist_pairwise, refs_c, indices=sel, flat=flat, out=out, progress=progress)
					cols = list(range(nref)) if sel is None else [int(i) for i in sel]
					full = _expected_matrix([refs_t[c] for c in cols], refs_t, cols) if m else np.empty((0, 0), np.float32)
					if flat:
						exp = np.array([full[i, j] for i in range(m) for j in range(i + 1, m)], np.float32)
					else:
						exp = full
					desc.update(flat=flat, idx=idx_regime, n=m)
			ctx.stats['executions'] += 1
			st = armed.stats
			ctx.state(armed.sig)
			# ---- oracle
			res_a = np.asarray(res)
			if out is not None and res is not out:
				ctx.violation('C05.unwritten', f'{fn} on {kind}: returned array is not the caller-supplied buffer')
			if res_a.shape != exp.shape:
				ctx.violation('C05.order', f'{fn} on {kind}: result shape {res_a.shape}, expected {exp.shape}')
			if res_a.dtype != np.float32:
				ctx.violation('C05.cell', f'{fn} on {kind}: result dtype {res_a.dtype}')
			rb, eb = _bits(res_a), _bits(exp)
			if not np.array_equal(rb, eb):
				bad = np.argwhere(rb != eb)
				pos = tuple(int(x) for x in bad[0])
				got_v, exp_v = float(res_a[pos]), float(exp[pos])
				klass = 'C05.cell'
				if poison is not None and rb[pos] == poison:
					klass = 'C05.unwritten'
				elif fn == 'pairwise' and not desc.get('flat') and res_a.ndim == 2 and rb[pos] != _bits(res_a.T)[pos]:
					klass = 'C05.symmetry'
				elif np.any(eb == rb[pos]):
					klass = 'C05.order'   # the value belongs to another cell of this result
				ctx.violation(klass, f'{fn} on {kind} ({qdt}x{rdt}, team {team}, {desc.get("idx") or desc.get("sub")}, chunk {desc.get("chunksize")}, out {out_regime}): '
				              f'cell {pos} is {got_v!r}, pairwise function gives {exp_v!r}', detail=f'{len(bad)} cells differ; {desc}')
			if fn == 'pairwise' and not desc['flat']:
				if not np.array_equal(rb, _bits(res_a.T)) or np.any(np.diagonal(rb) != 0):
					ctx.violation('C05.symmetry', f'pairwise on {kind}: matrix not symmetric with zero diagonal')
			if out_regime == 'strided':
				# the cells between the strides must still hold the poison: nothing wrote outside the view
				base = res.base if isinstance(res, np.ndarray) and res.base is not None else None
				if base is not None:
					mask = np.ones(base.shape, bool)
					mask[tuple(slice(None, None, 2) for _ in base.shape)] = False
					if not np.all(base.view(np.uint32)[mask] == np.uint32(0x7fc0dead)):
						ctx.violation('C05.order', f'{fn} on {kind}: cells outside the caller-supplied strided view were written')
			nontrivial = st['max_executing'] >= 2 or (chunk_regime == 'small')
			ctx.log('exec', **{k: (v if not isinstance(v, np.generic) else v.item()) for k, v in desc.items()}, out=out_regime,
			        omp=dict(regions=st['regions'], iters=st['iterations'], max_team=st['max_team'], executing=st['max_executing'], sig=armed.sig),
			        result=blob_hash(np.ascontiguousarray(res_a)))
			if nontrivial:
				ctx.key(fn, kind, qdt, rdt, chunk_regime, idx_regime, out_regime, team, armed.sig)
			if st['max_team'] >= 2:
				ctx.probe('team_ge2')
			if kind.startswith('hdf5'):
				ctx.probe('file_backed_references')
	finally:
		for c in closers:
			try:
				c()
			except Exception:
				pass
	ctx.sample = dict(nref=nref, nq=nq, qdt=qdt, rdt=rdt, executions=n_exec)
