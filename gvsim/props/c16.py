"""C16 - the distance-matrix command labels and fills every cell correctly.

System: `gambit [-d DB] dist -o out.csv ...` in-process with S1 (pool that parses both sides), S2
(OpenMP hand-out), S4 (short reads), S7 (machine size, left-over thread setting) held.  DESIGN 4.5.
"""
import csv
import os
import random
import re

import numpy as np

from ..engine import HarnessError, blob_hash
from ..harness import Knobs, run_cli
from ..oracles.labels import label as label_model
from ..oracles.rounding import acceptable_texts
from ..seams import omp
from ..worlds import queries as Q
from ..worlds import refdb as R
from .c08 import draw_kspec

PROP = 'C16'
LEVEL = 'exploration'
RUNS = {'quick': 320, 'thorough': 4800}

RULE = ('runs generated from the seed: a database world and a pool of genomes (plain + gzip files, signature files of sub-collections); then 6-12 dist commands with drawn '
        'query side (-q repeated / --ql + --qdir / --qs), reference side (-r / --rl + --rdir / --rs / --use-db / --square), -k/-p given (matching) or absent, -c, progress, '
        'pool completion policy and OpenMP hand-out. Header, row labels, row order and every cell text are checked against the two-signature distance of the reference '
        'executions rounded to four decimals. A case is (query channel, reference channel, sizes, k/p given, cores, completion order); non-trivial = at least 2 files parsed or cores>=2. Further drawn dimensions: injected faults (fail-or-fully-correct), failing commands as context, homonym files, symlinked inputs, multi-member gzip, path-like stored ids, big-endian signature files (refuse-or-correct), list files without a base directory, decoy working directory, tuning-knob defaults, python -O in every fourth run.')
STATES_MEASURE = 'distinct OpenMP schedule signatures of whole commands'

REAL = ['click command gambit dist, option handling, label derivation', 'calc_file_signatures for both sides', 'jaccarddist_matrix / jaccarddist_pairwise + compiled kernel',
        'load_signatures, database signature loading', 'dump_dmat_csv']
STUB = ['worker pool (gvsim.seams.executor)', 'OpenMP dynamic dispenser (native/gompsim.c)', 'reads of genome files (short reads)']
ASSUMPTIONS = [
	'expected cell = two-signature distance of the single-file signatures of the two genomes under the effective k-mer parameters (explicit options, else those of a supplied signature file or the database, else 11/ATGAC)',
	'a cell text is accepted if it is the float32 value or the exact ratio rounded to four decimals (either neighbour on an exact tie)',
	'parameter mismatches are not generated: what must happen then is C14',
]


def envs(tier):
	base = {'OMP_WAIT_POLICY': 'PASSIVE', 'GOMP_SPINCOUNT': '0', 'OMP_DYNAMIC': 'FALSE'}
	# every fourth run under `python -O`: results must not depend on assert statements being executed
	return [dict(preload=['gompsim.so'], env=base)] * 3 + [dict(preload=['gompsim.so'], env=dict(base, PYTHONOPTIMIZE='1'))]


class SigCache:
	"""Reference executions: single-file signature of a pool genome under given k-mer parameters."""

	def __init__(self, pool):
		self.pool = pool
		self.cache = {}

	def get(self, gi, kspec):
		from gambit.seq import SequenceFile
		from gambit.sigs.calc import calc_file_signature
		key = (gi, kspec.k, kspec.prefix)
		if key not in self.cache:
			self.cache[key] = np.asarray(calc_file_signature(kspec, SequenceFile(self.pool.genomes[gi]['plain'], 'fasta', 'auto')))
		return self.cache[key]


def write_sigfile(ctx, pool, idxs, kspec, name, int_ids=False, id_style=0, big_endian=False):
	from gambit.sigs.base import SignatureArray, AnnotatedSignatures, SignaturesMeta, dump_signatures
	from gambit.sigs.calc import calc_signature
	sigs = [np.asarray(calc_signature(kspec, pool.genomes[g]['contigs'])) for g in idxs]
	if int_ids:
		ids = np.array([0 + 11 * j for j in range(len(idxs))], dtype=np.int64)
	else:
		# stored ids are labels as they stand - also when they look like paths or file names
		styles = [lambda g, j: f'id:{pool.genomes[g]["stem"]}#{j}', lambda g, j: f'run{j % 2}/{pool.genomes[g]["stem"]}.fasta',
		          lambda g, j: f'{pool.genomes[g]["stem"]}.fa.gz', lambda g, j: f'/abs/dir{j}/{pool.genomes[g]["stem"]}']
		ids = np.array([styles[id_style % len(styles)](g, j) for j, g in enumerate(idxs)], dtype=object)
	path = os.path.join(ctx.scratch, name)
	dump_signatures(path, AnnotatedSignatures(SignatureArray(sigs, kspec, dtype=kspec.index_dtype), ids, SignaturesMeta(id=name)))
	if big_endian and kspec.index_dtype.itemsize > 1:
		# the same file with its values stored big-endian (legal HDF5, e.g. written on another platform)
		import h5py
		with h5py.File(path, 'r+') as f:
			vals = f['values'][:]
			del f['values']
			f.create_dataset('values', data=vals.astype(vals.dtype.newbyteorder('>')))
	return path, [str(x) for x in ids.tolist()]


def draw_side(ctx, ch, L, pool, kspec, side, c, allow=('files', 'list', 'sig')):
	"""Returns dict(channel, args, labels, sigs_of (list of ('g', gi) entries), files (paths parsed))."""
	opt = dict(q=('-q', '--ql', '--qdir', '--qs'), r=('-r', '--rl', '--rdir', '--rs'))[side]
	channel = ch.pick(list(allow), f'{L}.{side}chan')
	n = ch.int(1, 6, f'{L}.{side}n')
	npool = len(pool.genomes)
	idxs = [ch.int(0, npool - 1, f'{L}.{side}{i}') for i in range(n)]
	if channel == 'sig':
		be = ch.flip(0.08, f'{L}.{side}bigendian')
		path, ids = write_sigfile(ctx, pool, idxs, kspec, f'{side}-{c}.gs', int_ids=ch.flip(0.2, f'{L}.{side}intids'),
		                          id_style=ch.int(0, 3, f'{L}.{side}idstyle'), big_endian=be)
		return dict(channel='sig', args=[opt[3], path], labels=ids, genomes=idxs, files=[], sig_kspec=kspec, foreign_byte_order=be)
	forms = [ch.pick(['plain', 'gz', 'plain', 'gz', 'alias', 'link'], f'{L}.{side}f{i}') for i in range(n)]
	paths = [pool.genomes[g][f] or pool.genomes[g]['plain'] for g, f in zip(idxs, forms)]
	if channel == 'files':
		args = []
		for p in paths:
			args += [opt[0], p]
		return dict(channel='files', args=args, labels=[label_model(p) for p in paths], genomes=idxs, files=paths, sig_kspec=None)
	base = ch.pick([pool.root, ctx.scratch], f'{L}.{side}dir')
	rels = [os.path.relpath(p, base) for p in paths]
	lf = os.path.join(ctx.scratch, f'{side}list-{c}.txt')
	with open(lf, 'w') as f:
		f.write('\n'.join(rels) + '\n')
	if ch.flip(0.25, f'{L}.{side}no_dir'):
		return dict(channel='list', args=[opt[1], lf], labels=[label_model(r) for r in rels], genomes=idxs, files=paths, sig_kspec=None, needs_cwd=base)
	return dict(channel='list', args=[opt[1], lf, opt[2], base], labels=[label_model(r) for r in rels], genomes=idxs, files=paths, sig_kspec=None)


VALUE_RE = re.compile(r'^\d\.\d{4}$')


def check_matrix(ctx, desc, text, qlabels, rlabels, exp_pairs, klass_prefix='C16'):
	"""exp_pairs[i][j] = (sigA, sigB, f32 distance). Raises Violation."""
	rows = list(csv.reader(text.splitlines()))
	if not rows:
		ctx.violation(f'{klass_prefix}.header', f'{desc}: empty output')
	header = rows[0]
	if header[0] != '' or header[1:] != list(rlabels):
		if sorted(header[1:]) == sorted(rlabels):
			ctx.violation(f'{klass_prefix}.header', f'{desc}: header lists the reference labels in another order', detail=f'{header[1:]} vs {list(rlabels)}')
		ctx.violation(f'{klass_prefix}.header', f'{desc}: header {header[:8]!r}, expected corner + {list(rlabels)[:7]!r}')
	body = rows[1:]
	if len(body) != len(qlabels):
		ctx.violation(f'{klass_prefix}.row-order', f'{desc}: {len(body)} rows for {len(qlabels)} queries')
	got_labels = [r[0] if r else None for r in body]
	if got_labels != list(qlabels):
		if sorted(map(str, got_labels)) == sorted(qlabels):
			ctx.violation(f'{klass_prefix}.row-order', f'{desc}: query rows are in another order', detail=f'{got_labels} vs {list(qlabels)}')
		bad = next(i for i in range(len(qlabels)) if got_labels[i] != qlabels[i])
		ctx.violation(f'{klass_prefix}.row-label', f'{desc}: row {bad} labelled {got_labels[bad]!r}, expected {qlabels[bad]!r}')
	for i, r in enumerate(body):
		if len(r) != len(rlabels) + 1:
			ctx.violation(f'{klass_prefix}.cell', f'{desc}: row {i} has {len(r) - 1} values for {len(rlabels)} references')
		for j, v in enumerate(r[1:]):
			a, b, d = exp_pairs[i][j]
			if not VALUE_RE.match(v):
				ctx.violation(f'{klass_prefix}.cell', f'{desc}: cell ({i},{j}) text {v!r} is not a four-decimal value')
			ok = acceptable_texts(a, b, d)
			if v not in ok:
				# does the value belong to another cell (misaligned labels/rows)?
				elsewhere = any(v in acceptable_texts(*exp_pairs[x][y]) for x in range(len(body)) for y in range(len(rlabels)) if (x, y) != (i, j))
				ctx.violation(f'{klass_prefix}.cell', f'{desc}: cell ({i},{j}) is {v}, expected {sorted(ok)}' + (' (the value of another cell)' if elsewhere else ''))
	return rows


def scenario(ctx):
	ch = ctx.ch
	if not omp.available():
		raise HarnessError('C16 needs the gompsim shim preloaded')
	from gambit.kmers import KmerSpec, DEFAULT_KMERSPEC
	from gambit.metric import jaccarddist
	from gambit.sigs import load_signatures
	kspec = draw_kspec(ch, default_every=10)
	rng = random.Random(ch.subseed('refworld'))
	world = R.build(ctx, rng, kspec, ch.int(2, 10, 'n_ref'))
	pool = Q.build(ctx, random.Random(ch.subseed('pool')), world, ch.int(2, 7, 'n_pool'))
	cache = SigCache(pool)
	ctx.log('world', k=kspec.k, prefix=kspec.prefix_str, n_ref=len(world.genomes), n_pool=len(pool.genomes), id_attr=world.id_attr,
	        pool=[(g['stem'] + g['ext'], blob_hash(g['sig'])) for g in pool.genomes])
	# database signatures in file order (including padding rows), read back with the real loader once
	with load_signatures(world.gs) as dbs:
		db_sigs = [np.array(dbs[i]) for i in range(len(dbs))]
		db_ids = [str(x) for x in dbs.ids]
	all_paths = [g['plain'] for g in pool.genomes] + [g['gz'] for g in pool.genomes] + [g['alias'] for g in pool.genomes if g['alias']] + [g['link'] for g in pool.genomes]
	omp.set_threads(ch.int(1, 16, 'initial_threads'))
	n_cmd = ch.int(6, 12, 'n_cmd')
	for c in range(n_cmd):
		L = f'c{c}'
		rmode = ch.pick(['side', 'side', 'usedb', 'square'], L + '.rmode')
		kgiven = ch.flip(0.4, L + '.kgiven')
		cores = ch.pick([None, 1, 2, 3, 4, 8, 16], L + '.cores')
		progress = ch.flip(0.5, L + '.progress')
		knobs = Knobs(ch, L, with_chunk=False, faults=True)
		if ch.flip(0.1, L + '.failing_before'):
			# context: an earlier command of the same process that failed in mid-parse
			fk = Knobs(ch, L + '.fail', with_chunk=False)
			fres, _ = run_cli(ctx, ['dist', '-o', os.path.join(ctx.scratch, f'fail-{c}.csv'), '-k', str(kspec.k), '-p', kspec.prefix_str, '--no-progress',
			                        '-q', pool.broken, '-r', pool.genomes[0]['plain']], fk)
			ctx.fault('failing_command_before', status=fres.status)
			ctx.log('failing_cmd', status=fres.status)
		q = draw_side(ctx, ch, L, pool, kspec, 'q', c)
		r = None
		if rmode == 'side':
			r = draw_side(ctx, ch, L, pool, kspec, 'r', c)
			if q.get('needs_cwd') and r.get('needs_cwd') and q['needs_cwd'] != r['needs_cwd']:
				r = dict(r, args=r['args'] + ['--rdir', r['needs_cwd']], needs_cwd=None)   # one working directory per command
		# effective k-mer parameters by the documented rule
		sig_src = q['sig_kspec'] or (r and r['sig_kspec']) or (kspec if rmode == 'usedb' else None)
		if kgiven:
			# explicit options must match any pre-computed side; free choice only when both sides are files
			eff = sig_src or KmerSpec(ch.pick([5, 6, 7], L + '.k'), ch.pick(['AT', 'GCA', 'TT'], L + '.p'))
			kargs = ['-k', str(eff.k), '-p', eff.prefix_str]
		else:
			eff = sig_src or DEFAULT_KMERSPEC
			kargs = []
		out = os.path.join(ctx.scratch, f'dist-{c}.csv')
		args = (['-d', world.dir] if (rmode == 'usedb' or ch.flip(0.3, L + '.dflag')) else []) + ['dist', '-o', out] + kargs + q['args']
		if rmode == 'side':
			args += r['args']
		elif rmode == 'usedb':
			args += ['--use-db']
		else:
			args += ['--square']
		args += ['--progress' if progress else '--no-progress'] + ([] if cores is None else ['-c', str(cores)])
		cwd = pool.decoy_cwd if ch.flip(0.5, L + '.decoy_cwd') else None
		cwd = q.get('needs_cwd') or (r and r.get('needs_cwd')) or cwd
		res, h = run_cli(ctx, args, knobs, short_paths=all_paths, short_seed=ch.subseed(L + '.short'), cwd=cwd, ch=ch, label=L,
		                 fault_paths=(q['files'] + (r['files'] if r else [])) or None)
		ctx.stats['executions'] += 1
		order = list(h.sim.completion_order)
		text = open(out).read() if os.path.exists(out) else ''
		desc = f'dist q={q["channel"]}x{len(q["genomes"])} r={rmode if rmode != "side" else r["channel"] + "x" + str(len(r["genomes"]))} k/p {"given" if kgiven else "absent"} -c {cores}'
		ctx.log('cmd', q=q['channel'], qn=len(q['genomes']), rmode=rmode, r=None if r is None else r['channel'], rn=None if r is None else len(r['genomes']),
		        kgiven=kgiven, eff=(eff.k, eff.prefix_str), cores=cores, progress=progress, status=res.status, order=order, out=blob_hash(text), omp=h.omp_sig, **knobs.describe())
		nfiles = len(q['files']) + (len(r['files']) if r else 0)
		if nfiles >= 2 or (cores or 1) >= 2:
			ctx.key(q['channel'], len(q['genomes']), rmode, None if r is None else (r['channel'], len(r['genomes'])), kgiven, cores, tuple(order))
		if len(order) >= 2 and order != sorted(order):
			ctx.probe('completion_out_of_submission_order')
		if h.omp_stats and h.omp_stats['max_executing'] >= 2:
			ctx.probe('ge2_threads_executed_iterations')
		if h.fault_fired and res.status != 0:
			ctx.probe('command_failed_under_fault')
			continue
		if h.fault_fired:
			ctx.probe('command_succeeded_under_fault')
		if res.status != 0 and (q.get('foreign_byte_order') or (r and r.get('foreign_byte_order'))):
			# a signature file in the other byte order may be refused loudly; it may never give a wrong table
			ctx.probe('foreign_byte_order_refused')
			continue
		if res.status != 0:
			ctx.violation('C16.status', f'{desc}: exit status {res.status} ({type(res.exc).__name__ if res.exc else "-"})', detail=f'{res.exc!r} {res.stderr[-400:]}')
		qsigs = [cache.get(g, eff) for g in q['genomes']]
		if rmode == 'side':
			rsigs = [cache.get(g, eff) for g in r['genomes']]
			rlabels = r['labels']
		elif rmode == 'usedb':
			rsigs, rlabels = db_sigs, db_ids
		else:
			rsigs, rlabels = qsigs, q['labels']
		exp = [[(a, b, jaccarddist(a, b)) for b in rsigs] for a in qsigs]
		rows = check_matrix(ctx, desc, text, q['labels'], rlabels, exp)
		if rmode == 'square':
			n = len(qsigs)
			vals = [row[1:] for row in rows[1:]]
			for i in range(n):
				if vals[i][i] != '0.0000':
					ctx.violation('C16.square', f'{desc}: diagonal cell ({i},{i}) is {vals[i][i]}')
				for j in range(n):
					if vals[i][j] != vals[j][i]:
						ctx.violation('C16.square', f'{desc}: cells ({i},{j}) and ({j},{i}) differ: {vals[i][j]} vs {vals[j][i]}')
			if ch.flip(0.5, L + '.square_twin'):
				# the same genomes supplied as both sides must give the same table
				out2 = os.path.join(ctx.scratch, f'dist-{c}-twin.csv')
				rargs = []
				if q['channel'] == 'sig':
					rargs = ['--rs', q['args'][1]]
				elif q['channel'] == 'files':
					for p in q['files']:
						rargs += ['-r', p]
				else:
					rargs = ['--rl', q['args'][1]] + (['--rdir', q['args'][3]] if len(q['args']) > 3 else [])
				knobs2 = Knobs(ch, L + '.twin', with_chunk=False)
				args2 = ['dist', '-o', out2] + kargs + q['args'] + rargs + ['--no-progress'] + ([] if cores is None else ['-c', str(cores)])
				res2, h2 = run_cli(ctx, args2, knobs2, short_paths=all_paths, short_seed=ch.subseed(L + '.short2'), cwd=cwd, ch=ch, label=L + '.twin')
				ctx.stats['executions'] += 1
				text2 = open(out2).read() if os.path.exists(out2) else ''
				ctx.log('twin', status=res2.status, out=blob_hash(text2))
				if res2.status != 0 and q.get('foreign_byte_order'):
					ctx.probe('foreign_byte_order_refused')      # the twin has cells to compute and may refuse the file loudly
				elif res2.status != 0 or list(csv.reader(text2.splitlines())) != rows:
					ctx.violation('C16.square', f'{desc}: --square output differs from supplying the same genomes as queries and references',
					              detail=f'status {res2.status}\n{text[:300]}\n---\n{text2[:300]}')
				ctx.probe('square_twin_compared')
	ctx.sample = dict(n_pool=len(pool.genomes), commands=n_cmd)
