"""C09 - the closest-genomes list is the deterministic (distance, reference order) prefix.

System: gambit.query.query() (and, in a tenth of the runs, the CLI with -f json / -f csv) on generated
databases rich in ties, in worker interpreters whose NumPy CPU-feature dispatch differs (S7), with
thread count, OpenMP hand-out (S2), chunk size and report_closest drawn per execution.  The oracle is
evaluated on every result item of every simulated execution.  DESIGN 4.4.

Run indices 5g .. 5g+4 share one choice sequence (RUN_GROUP) and differ only in the interpreter's ambient
setting (three NumPy dispatch settings, NPY_PROMOTION_STATE=weak, PYTHONOPTIMIZE=1), so the same (database, query,
configuration) is executed under all five.
"""
import csv
import io
import json
import os
import random

import numpy as np

from ..engine import HarnessError, blob_hash
from ..harness import Knobs, run_cli, simulated
from ..seams import omp
from ..worlds import refdb as R
from ..worlds import sigs as WS

PROP = 'C09'
LEVEL = 'exploration'
RUNS = {'quick': 1000, 'thorough': 15000}
RUN_GROUP = 5
EVAL_COUNTER = 'items_checked'   # a case is one result item (one closest-genomes list)

AVX512 = 'AVX512F AVX512CD AVX512_SKX AVX512_CLX AVX512_CNL AVX512_ICL'
DISPATCH = ['', AVX512, AVX512 + ' AVX2 FMA3']

RULE = ('runs generated from the seed in groups of five (same choice sequence; interpreter environment: NumPy dispatch none-disabled / AVX-512 disabled / AVX-512+AVX2+FMA3 disabled / NPY_PROMOTION_STATE=weak / PYTHONOPTIMIZE=1): '
        'a database of 3-200 references built at signature level with identical, nested and equidistant members, 1-4 queries, then 4-10 executions of query() with drawn '
        'report_closest 1..n+3, chunk size, OpenMP team size and hand-out; a tenth of the runs also go through the CLI (-f json and -f csv). A case is '
        '(tie structure of the distance row, N, dispatch setting, team size, chunk regime); non-trivial = the row has a tie inside or at the edge of the reported prefix. Run groups of five share a choice sequence (three dispatch settings, NPY_PROMOTION_STATE=weak, PYTHONOPTIMIZE=1). Further drawn dimensions: one database object reused across executions with in-memory threshold edits, one QueryParams object reused across a small and the main database, references at distance exactly j/10, references at two distinct distances less than 1e-6 apart (1000/2001 and 1001/2003 shared, 15% of the worlds).')
STATES_MEASURE = 'distinct (dispatch setting, tie pattern of the reported prefix) pairs'

REAL = ['gambit.query.query / get_result_item', 'gambit.classify', 'jaccarddist_matrix + compiled kernel', 'numpy argsort/argmin under the dispatch setting of the interpreter',
        'ReferenceDatabase loading (SQLite, HDF5)', 'CLI + exporters in the CLI arm']
STUB = ['OpenMP dynamic dispenser (native/gompsim.c)', 'worker pool in the CLI arm (unused: signature-file channel)']
ASSUMPTIONS = [
	'reference order is the order of the genomes in the loaded database (signature-file order, unmatched signatures dropped)',
	'the taxon "that distance alone would assign" is the threshold walk; a distance exactly equal to a threshold up to float32/float64 reading is accepted either way',
	'no fault is injected: the statement names none; the simulator holds the configuration sources it names (dispatch, threads, chunk size, repeated runs)',
]


def envs(tier):
	base = {'OMP_WAIT_POLICY': 'PASSIVE', 'GOMP_SPINCOUNT': '0', 'OMP_DYNAMIC': 'FALSE'}
	out = [dict(preload=['gompsim.so'], env=dict(base, NPY_DISABLE_CPU_FEATURES=d)) for d in DISPATCH]
	# two more ambient settings a result must not depend on: NumPy's scalar promotion mode and `python -O`
	out.append(dict(preload=['gompsim.so'], env=dict(base, NPY_DISABLE_CPU_FEATURES='', NPY_PROMOTION_STATE='weak')))
	out.append(dict(preload=['gompsim.so'], env=dict(base, NPY_DISABLE_CPU_FEATURES='', PYTHONOPTIMIZE='1')))
	return out


def _walk(world, tid, d, f32):
	for t in R.lineage(world, tid):
		thr = world.taxon(t)['threshold']
		if thr is None:
			continue
		if f32:
			if np.float32(d) <= np.float32(thr):
				return t
		elif float(d) <= thr:
			return t
	return None


def check_item(ctx, world, order_idx, dists, item_genome_keys, item_dists, item_taxa, closest_key, N, where, closest_taxon='n/a'):
	"""order_idx: world genome indices in database order; dists: float32 distance row (database order)."""
	n = len(order_idx)
	exp_len = min(N, n)
	if len(item_genome_keys) != exp_len:
		ctx.violation('C09.length', f'{where}: list has {len(item_genome_keys)} entries, expected min({N}, {n})')
	exp_order = sorted(range(n), key=lambda i: (float(dists[i]), i))[:exp_len]
	key_to_pos = {world.genomes[g]['key']: i for i, g in enumerate(order_idx)}
	got_pos = [key_to_pos.get(k) for k in item_genome_keys]
	if any(p is None for p in got_pos):
		ctx.violation('C09.order', f'{where}: list names a genome that is not in the database')
	# ties inside or at the edge of the prefix?
	tie = False
	if exp_len:
		srt = sorted(float(x) for x in dists)
		pre = srt[:exp_len]
		tie = len(set(pre)) < len(pre) or (exp_len < n and srt[exp_len] == pre[-1])
	if tie:
		ctx.probe('tie_inside_or_at_edge_of_prefix')
	for r, p in enumerate(got_pos):
		if np.float32(item_dists[r]).view(np.uint32) != np.float32(dists[p]).view(np.uint32):
			ctx.violation('C09.order', f'{where}: entry {r} reports distance {item_dists[r]!r}, the pairwise function gives {float(dists[p])!r}')
	gd = [float(dists[p]) for p in got_pos]
	if any(gd[i] > gd[i + 1] for i in range(len(gd) - 1)):
		ctx.violation('C09.order', f'{where}: distances are not non-decreasing: {gd}')
	if got_pos != exp_order:
		if sorted(gd) == [float(dists[i]) for i in exp_order]:
			first = next(i for i in range(len(got_pos)) if got_pos[i] != exp_order[i])
			ctx.violation('C09.tie-order', f'{where}: tied genomes are not in reference order: entry {first} is reference {got_pos[first]}, expected reference {exp_order[first]}',
			              detail=f'got positions {got_pos[:40]}, expected {exp_order[:40]}, distances {[float(dists[i]) for i in exp_order][:40]}')
		ctx.violation('C09.order', f'{where}: not the nearest genomes', detail=f'got positions {got_pos[:40]}, expected {exp_order[:40]}')
	for r, p in enumerate(got_pos):
		g = world.genomes[order_idx[p]]
		ok = {_walk(world, g['taxon'], dists[p], True), _walk(world, g['taxon'], dists[p], False)}
		if item_taxa[r] not in ok:
			ctx.violation('C09.order', f'{where}: entry {r} carries taxon {item_taxa[r]}, the threshold walk gives {sorted(ok, key=str)}')
	if exp_len and closest_key is not None and item_genome_keys[0] != closest_key:
		ctx.violation('C09.first-not-closest', f'{where}: first entry is {item_genome_keys[0]!r} but the closest match is {closest_key!r}',
		              detail=f'distances of the prefix {gd}')
	if exp_len and closest_taxon != 'n/a' and closest_key is not None and item_genome_keys[0] == closest_key and item_taxa[0] != closest_taxon:
		ctx.violation('C09.first-not-closest', f'{where}: first entry and the reported closest match are the same genome at the same distance but carry different taxa ({item_taxa[0]} vs {closest_taxon})')
	return tie, tuple(_tie_pattern(gd))


def _tie_pattern(gd):
	out = []
	for i, x in enumerate(gd):
		out.append(0 if i == 0 or x != gd[i - 1] else 1)
	return out


def scenario(ctx):
	ch = ctx.ch
	if not omp.available():
		raise HarnessError('C09 needs the gompsim shim preloaded')
	from gambit.kmers import KmerSpec
	from gambit.db import ReferenceDatabase
	from gambit.metric import jaccarddist
	from gambit.query import QueryParams, query
	import gc
	dispatch = ctx.run % RUN_GROUP
	kspec = KmerSpec(ch.pick([6, 5, 7, 9, 11], 'k'), ch.pick(['AT', 'GC', 'ATG', 'ATGAC'], 'prefix'))
	n_ref = ch.pick([5, 3, 8, 12, 20, 33, 60, 120, 200], 'n_ref')
	rng = random.Random(ch.subseed('world'))
	near_ties = ch.flip(0.15, 'near_ties')
	world = R.build(ctx, rng, kspec, n_ref, fast_sigs=True, near_ties=near_ties)
	order_idx = R.db_order(world)
	taxa_on_disk = [dict(t) for t in world.taxa]
	nq = ch.int(1, 4, 'nq')
	universe = min(4 ** kspec.k, 2 ** 40)
	queries = []
	for i in range(nq):
		if i == 0 and world.near_query is not None:
			queries.append(world.near_query.astype(kspec.index_dtype))
			ctx.probe('query_with_distinct_distances_closer_than_1e-6')
			continue
		r = rng.random()
		if r < 0.25 and world.decimal_query is not None:
			queries.append(world.decimal_query.astype(kspec.index_dtype))
		elif r < 0.4:
			queries.append(world.genomes[rng.randrange(n_ref)]['sig'].copy())
		elif r < 0.5:
			queries.append(np.empty(0, kspec.index_dtype))
		else:
			base = world.genomes[rng.randrange(n_ref)]['sig']
			extra = WS.random_set(rng, universe, rng.randint(0, 6)).astype(kspec.index_dtype)
			queries.append(np.union1d(base, extra).astype(kspec.index_dtype))
	ctx.log('world', k=kspec.k, n_ref=n_ref, nq=nq, dispatch=dispatch, id_attr=world.id_attr,
	        sigs=blob_hash(np.concatenate([g['sig'].astype('u8') for g in world.genomes])), order=blob_hash(repr(world.sig_order)))
	# expected distance rows, pair by pair through the two-signature entry point
	rows = [np.array([jaccarddist(q, world.genomes[g]['sig']) for g in order_idx], dtype=np.float32) for q in queries]
	if any(float(d) in (np.float32(0.1), np.float32(0.2), np.float32(0.3), np.float32(0.4), np.float32(0.6), np.float32(0.7), np.float32(0.8), np.float32(0.9)) for r in rows for d in r):
		ctx.probe('distance_equal_to_float32_of_a_decimal_threshold')
	omp.set_threads(ch.int(1, 16, 'initial_threads'))
	if ch.flip(0.3, 'params_reused_across_databases'):
		# one QueryParams object used for a small database first and for the main one afterwards: what it says (N) must still
		# be what the second query honours
		N0 = ch.int(4, 9, 'shared_N')
		small = R.build(ctx, random.Random(ch.subseed('small_world')), kspec, 3, dirname='db_small', fast_sigs=True)
		s_order = R.db_order(small)
		shared = QueryParams(report_closest=N0, chunksize=ch.pick([1000, None, 2], 'shared_chunk'))
		kn = Knobs(ch, 'shared', with_chunk=False)
		with simulated(ctx, kn):
			for wld, order in ((small, s_order), (world, order_idx)):
				dbx = ReferenceDatabase.load_from_dir(wld.dir)
				resx = query(dbx, queries, shared)
				for qi, item in enumerate(resx.items):
					rowx = np.array([jaccarddist(queries[qi], wld.genomes[g]['sig']) for g in order], dtype=np.float32)
					cm = item.classifier_result.closest_match.matched_taxon
					check_item(ctx, wld, order, rowx, [m.genome.key for m in item.closest_genomes], [m.distance for m in item.closest_genomes],
					           [None if m.matched_taxon is None else m.matched_taxon.id for m in item.closest_genomes],
					           item.classifier_result.closest_match.genome.key, N0,
					           f'query() with a QueryParams object reused across databases (N={N0}), database of {len(order)} references, query {qi}',
					           None if cm is None else cm.id)
					ctx.stats['items_checked'] += 1
				del dbx, resx
				gc.collect()
		ctx.stats['executions'] += 2
		ctx.probe('params_object_reused_across_databases')
		ctx.log('shared_params', N=N0)
	n_exec = ch.int(4, 10, 'n_exec')
	seen_lists = {}
	all_lists = []
	# half of the runs keep ONE loaded database for all executions (state left behind by an earlier query must not
	# matter), and then thresholds may be edited in memory between executions (interactive tuning; never flushed)
	reuse_db = ch.flip(0.5, 'reuse_db')
	shared_db = None
	for e in range(n_exec):
		L = f'e{e}'
		N = ch.int(1, n_ref + 3, L + '.N') if ch.flip(0.8, L + '.customN') else 10
		knobs = Knobs(ch, L, with_chunk=True, nrefs=n_ref)
		if ch.flip(0.7, L + '.set_threads'):
			omp.set_threads(ch.pick([2, 1, 3, 4, 7, 8, 16], L + '.threads'))
		team = omp.get_max_threads()
		strict = ch.flip(0.2, L + '.strict')
		from ..harness import knob_defaults
		if reuse_db and shared_db is not None and ch.flip(0.3, L + '.edit_threshold'):
			from gambit.db import Taxon
			tid = ch.int(1, len(world.taxa), L + '.edit_taxon')
			newthr = ch.pick([None, 0.05, 0.3, 0.55, 0.9, 1.0], L + '.edit_value')
			shared_db.session.get(Taxon, tid).distance_threshold = newthr
			world.taxon(tid)['threshold'] = newthr
			seen_lists.clear()         # the lists carry taxa: compare across configurations only under equal thresholds
			ctx.probe('threshold_edited_between_queries')
			ctx.log('edit', taxon=tid, threshold=newthr)
		with simulated(ctx, knobs) as h, knob_defaults(ctx, ch, L):
			if reuse_db:
				if shared_db is None:
					shared_db = ReferenceDatabase.load_from_dir(world.dir)
				db = shared_db
			else:
				db = ReferenceDatabase.load_from_dir(world.dir)
			params = QueryParams(classify_strict=strict, chunksize=knobs.chunksize, report_closest=N)
			results = query(db, queries, params)
		ctx.stats['executions'] += 1
		ctx.tick()
		if [g.key for g in db.genomes] != [world.genomes[i]['key'] for i in order_idx]:
			raise HarnessError('database order differs from the model (signature-file order)')
		lists = []
		for qi, item in enumerate(results.items):
			keys = [m.genome.key for m in item.closest_genomes]
			ds = [m.distance for m in item.closest_genomes]
			taxa = [None if m.matched_taxon is None else m.matched_taxon.id for m in item.closest_genomes]
			ck = item.classifier_result.closest_match.genome.key
			cm = item.classifier_result.closest_match.matched_taxon
			where = f'query() n={n_ref} N={N} chunk={knobs.chunksize} team={team} dispatch={dispatch} query {qi}'
			tie, pattern = check_item(ctx, world, order_idx, rows[qi], keys, ds, taxa, ck, N, where, None if cm is None else cm.id)
			lists.append(keys[:])
			ctx.stats['items_checked'] += 1
			if tie:
				ctx.key(pattern, min(N, n_ref), dispatch, team, 'small' if (knobs.chunksize or 10 ** 9) < n_ref else 'big')
				ctx.state(dispatch, pattern)
			# identical across configurations executed in this run (same N prefix-compatible)
			prev = seen_lists.get(qi)
			if prev is not None:
				m = min(len(prev), len(keys))
				if prev[:m] != keys[:m]:
					ctx.violation('C09.config-dependent', f'query {qi}: list changed between executions of the same run (team/chunk/hand-out differ)',
					              detail=f'{prev[:m]} vs {keys[:m]}')
			if prev is None or len(keys) > len(prev):
				seen_lists[qi] = keys
		ctx.log('exec', N=N, chunk=knobs.chunksize, team=team, strict=strict, omp=h.omp_sig, lists=blob_hash(repr(lists)))
		all_lists.append(lists)
		if knobs.chunksize is not None and knobs.chunksize < n_ref:
			ctx.probe('chunk_smaller_than_references')
		del db, results
		gc.collect()
	if shared_db is not None:
		# the CLI arm below reads the files: the in-memory edits were never flushed, so the stored thresholds apply again
		shared_db.session.rollback()
		shared_db = None
		gc.collect()
		world.taxa = [dict(t) for t in taxa_on_disk]

	# CLI arm: CSV and JSON must name the same closest genome
	if ch.int(0, 9, 'cli_arm') == 0:
		from gambit.sigs.base import SignatureArray, AnnotatedSignatures, dump_signatures
		qpath = os.path.join(ctx.scratch, 'queries.gs')
		dump_signatures(qpath, AnnotatedSignatures(SignatureArray(queries, kspec, dtype=kspec.index_dtype), np.array([f'q{i}' for i in range(nq)], dtype=object)))
		outs = {}
		for fmt in ('json', 'csv'):
			knobs = Knobs(ch, 'cli.' + fmt, with_chunk=True, nrefs=n_ref)
			out = os.path.join(ctx.scratch, f'cli.{fmt}')
			cores = ch.pick([None, 1, 2, 5, 16], f'cli.{fmt}.cores')
			args = ['-d', world.dir, 'query', '-o', out, '-f', fmt, '--no-progress', '-s', qpath] + ([] if cores is None else ['-c', str(cores)])
			res, h = run_cli(ctx, args, knobs, chunk=True, ch=ch, label='cli.' + fmt)
			ctx.stats['executions'] += 1
			if res.status != 0:
				ctx.violation('C09.length', f'CLI query -f {fmt} exited with status {res.status}', detail=repr(res.exc) + res.stderr[-300:])
			outs[fmt] = open(out).read()
			ctx.log('cli', fmt=fmt, cores=cores, chunk=knobs.chunksize, out=blob_hash(outs[fmt]) if fmt == 'csv' else len(outs[fmt]) > 0)
		jd = json.loads(outs['json'])
		crow = list(csv.DictReader(io.StringIO(outs['csv'])))
		desc_to_keys = {}
		for g in world.genomes:
			desc_to_keys.setdefault(g['description'], []).append(g['key'])
		for qi, (jit, row) in enumerate(zip(jd['items'], crow)):
			cg = jit['closest_genomes']
			keys = [m['genome']['key'] for m in cg]
			ds = [np.float32(m['distance']) for m in cg]
			taxa = [None if m['matched_taxon'] is None else m['matched_taxon']['id'] for m in cg]
			where = f'CLI -f json n={n_ref} dispatch={dispatch} query {qi}'
			check_item(ctx, world, order_idx, rows[qi], keys, ds, taxa, None, 10, where)
			ctx.stats['items_checked'] += 1
			if cg and row['closest.description'] != cg[0]['genome']['description']:
				ctx.violation('C09.csv-json-disagree', f'n={n_ref} dispatch={dispatch} query {qi}: CSV names {row["closest.description"]!r} as closest, JSON lists {cg[0]["genome"]["description"]!r} first')
		ctx.probe('cli_arm')
	ctx.sample = dict(n_ref=n_ref, nq=nq, dispatch=dispatch, executions=n_exec, lists=blob_hash(repr(all_lists)))


def cross_check(records):
	"""Redundant with the model oracle (which is configuration independent): the three runs of a group
	(same choice sequence, different NumPy dispatch) must have produced identical closest-genome lists.
	A mismatch while no run of the group reported a violation would mean the oracle is unsound."""
	errs = []
	groups = {}
	for r in records:
		groups.setdefault(r['run'] // RUN_GROUP, []).append(r)
	for g, rs in sorted(groups.items()):
		if any(r.get('violation') or r.get('error') for r in rs):
			continue
		hs = {(r.get('sample') or {}).get('lists') for r in rs}
		if len(hs) > 1:
			errs.append(f'C09 group {g}: lists differ across dispatch settings although every run passed its oracle: {sorted(map(str, hs))}')
	return errs
