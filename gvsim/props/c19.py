"""C19 - an interrupted signature-file write never yields a loadable wrong file.

System: the real writer (dump_signatures, or the `gambit signatures create` command) in a forked child
that is SIGKILLed at an enumerated crash point (seam S3); the real loader as recovery in a second
forked child.  For each sampled write EVERY h5py call boundary and EVERY write-class system call on
the target file is used as a crash point once, plus torn variants of multi-page writes.  DESIGN 4.8.
"""
import json
import os
import random
import shutil

import numpy as np

from ..engine import HarnessError, blob_hash
from ..seams import crash
from ..seams import executor as sx
from ..worlds import genomes as G
from ..worlds import sigs as WS

PROP = 'C19'
LEVEL = 'fault_enumeration'
RUNS = {'quick': 256, 'thorough': 5120}
WORKER_ARGS = {'run_timeout': 400}
EXHAUSTIVE = False   # crash points of each sampled write are enumerated completely; the space of writes is sampled

RULE = ('runs generated from the seed, one write per run: a collection of 1-12 signatures (k 1..32, all four index widths, empty signatures, string/integer ids, Unicode metadata with nested extra), '
        'container (bare SignatureArray = whole-array path; SignatureList / AnnotatedSignatures = per-signature path), compression none/gzip/lzf, small or multi-megabyte payload, '
        'target path fresh or holding a valid older signature file, writer dump_signatures or the signatures-create command. A counting run establishes B h5py boundaries and W write-class system calls; '
        'then every boundary 0..B-1 and every system call 1..W is a crash point (SIGKILL), plus torn variants (page-multiple prefix) of every multi-page write. '
        'A case is one (write, crash point) pair; all are non-trivial except the fault-free baseline; distinct = distinct (write shape, crash kind, position, recovery outcome). Also: every boundary again with the writer dying from SIGINT (KeyboardInterrupt, unwinding as Python does), a drawn subset with SIGTERM, file-backed source collections, a payload above 2**20 values in one run in twenty-five.')
STATES_MEASURE = 'distinct (container, compression, payload class, pre-existing, writer, crash kind, recovery outcome) combinations'

REAL = ['gambit.sigs.hdf5 writer (both paths), gambit.cli.signatures create', 'h5py + libhdf5 + libc write path', 'the kernel page cache of the scratch file system', 'gambit.sigs.base.load_signatures as recovery']
STUB = ['process death: SIGKILL raised inside the writer child at the chosen h5py boundary / system call (native/pwkill.c)', 'worker pool inside the create command (simulated, FIFO)']
ASSUMPTIONS = [
	'a killed process leaves exactly the effects of its completed system calls (plus, for torn variants, a page-multiple prefix of the interrupted write); power-loss reordering and page-cache loss are not modelled - the property speaks of the writing process dying',
	'sub-page tearing is not modelled (process death cannot produce it)',
	'with a pre-existing file, a survivor byte-identical to the old file is "not yet touched" and accepted',
]


def envs(tier):
	return [dict(preload=['pwkill.so'], env={})]


class NullCtx:
	def log(self, *a, **k):
		pass

	def fault(self, *a, **k):
		pass

	def probe(self, *a, **k):
		pass

	def tick(self, *a, **k):
		pass

	class _Ch:
		def _draw(self, n, label):
			return 0
	ch = _Ch()


# ---------------------------------------------------------------------------------------------
# writers (run inside the forked child)

def _write_dump(path, kind, arrays, k, prefix, dtype, ids, meta_kw, compression, srcpath=None):
	from gambit.kmers import KmerSpec
	from gambit.sigs.base import SignatureArray, SignatureList, AnnotatedSignatures, SignaturesMeta, dump_signatures, load_signatures
	kspec = KmerSpec(k, prefix)
	kw = {} if compression is None else dict(compression=compression)
	if kind in ('HDF5Source', 'AnnotatedHDF5'):
		# re-saving a collection that is itself backed by a (complete) signature file
		src = load_signatures(srcpath)
		try:
			coll = src if kind == 'HDF5Source' else AnnotatedSignatures(src, ids, SignaturesMeta(**meta_kw) if meta_kw is not None else None)
			dump_signatures(path, coll, **kw)
		finally:
			src.close()
		return 'done'
	if kind.endswith('Array'):
		base = SignatureArray(arrays, kspec, dtype=np.dtype(dtype))
	else:
		base = SignatureList(arrays, kspec, dtype=np.dtype(dtype))
	if kind.startswith('Annotated'):
		coll = AnnotatedSignatures(base, ids, SignaturesMeta(**meta_kw) if meta_kw is not None else None)
	else:
		coll = base
	kw = {} if compression is None else dict(compression=compression)
	dump_signatures(path, coll, **kw)
	return 'done'


def _write_cli(path, args):
	from ..seams import cli as cliseam
	sx.install()
	sim = sx.Sim(NullCtx(), machine_size=2, policy='fifo')
	sx.activate(sim)
	try:
		res = cliseam.run(args, collect=False)
	finally:
		sx.deactivate()
	if res.status != 0:
		raise RuntimeError(f'create command failed: {res.exc!r} {res.stderr[-300:]}')
	return 'done'


# ---------------------------------------------------------------------------------------------

UNICODE = ['plain', 'Ünïcödé ✓', '日本語のメタデータ', 'tab\tand "quotes"', '']


def _meta(rng):
	if rng.random() < 0.25:
		return None
	def s():
		return rng.choice(UNICODE) if rng.random() < 0.7 else None
	extra = rng.choice([{}, {'author': 'x'}, {'nested': {'a': [1, 2, {'b': None}], 'ü': 'é'}, 'n': 1.5}, {'revision': {'num': 3, 'date': '2020', 'author': 'å', 'description': ''}}])
	return dict(id=s(), name=s(), version=rng.choice(['1.0', None, '2.1rc1']), id_attr=rng.choice([None, 'key', 'refseq_acc']), description=s(), extra=extra)


def _expected_meta(meta_kw):
	base = dict(id=None, name=None, version=None, id_attr=None, description=None, extra={})
	if meta_kw:
		base.update(meta_kw)
	return base


def _restore(path, old_bytes):
	try:
		os.unlink(path)
	except FileNotFoundError:
		pass
	if old_bytes is not None:
		with open(path, 'wb') as f:
			f.write(old_bytes)


def _judge(ctx, desc, where, path, old_bytes, expected, counts, old_desc=None):
	"""Examine the survivor; returns a one-letter outcome code or raises Violation."""
	if not os.path.exists(path):
		counts['absent'] += 1
		return 'A'
	if old_bytes is not None:
		with open(path, 'rb') as f:
			cur = f.read()
		if cur == old_bytes:
			counts['untouched'] += 1
			return 'U'
	r = crash.examine_forked(path)
	oc = r['outcome']
	if oc == 'refused':
		counts['refused'] += 1
		return 'R'
	if oc == 'loader-crashed':
		ctx.violation('C19.loader-crashed', f'{desc}: loader died on the survivor of a crash {where}', detail=str(r))
	if oc == 'accepted-unreadable':
		ctx.violation('C19.accepted-unreadable', f'{desc}: survivor of a crash {where} opens as a signature file but cannot be read', detail=str(r)[:400])
	# loaded: must be exactly what was being written - or, with a pre-existing file, exactly the old collection
	# (the writer has not yet replaced it, even if it already touched a flag byte of the file)
	if old_desc is not None and all(r.get(k) == old_desc.get(k) for k in ('k', 'prefix', 'n', 'dtype', 'arrays', 'ids', 'meta')):
		counts['untouched'] += 1
		return 'O'
	diffs = []
	if (r['k'], r['prefix']) != (expected['k'], expected['prefix']):
		diffs.append(f'k-mer parameters {r["k"]}/{r["prefix"]}')
	if r['n'] != expected['n']:
		diffs.append(f'length {r["n"]} instead of {expected["n"]}')
	elif r['arrays'] != expected['arrays']:
		bad = [i for i in range(r['n']) if r['arrays'][i] != expected['arrays'][i]]
		zero = [i for i in bad if not any(r['arrays'][i][1]) and len(r['arrays'][i][1]) == len(expected['arrays'][i][1])]
		diffs.append(f'signatures {bad[:6]} differ' + (f' ({len(zero)} zero-filled)' if zero else ''))
	if r['dtype'] != expected['dtype']:
		diffs.append(f'dtype {r["dtype"]}')
	if r['ids'] != expected['ids']:
		diffs.append('ids differ')
	if r['meta'] != expected['meta']:
		diffs.append('metadata differ')
	if diffs:
		sub = 'shorter' if r['n'] < expected['n'] else ('zero-filled' if 'zero-filled' in ' '.join(diffs) else 'other')
		ctx.violation('C19.loaded-different', f'{desc}: survivor of a crash {where} loads as a different collection ({sub}): {"; ".join(diffs)}',
		              detail=f'expected n={expected["n"]} ids={expected["ids"][:5]}, loaded n={r["n"]} ids={r["ids"][:5]} meta={r["meta"]}')
	counts['loaded_equal'] += 1
	return 'L'


def scenario(ctx):
	ch = ctx.ch
	import gambit.cli  # noqa: imported in the parent so that forked children do not pay for it
	import gambit.sigs.hdf5  # noqa
	thorough = ctx.tier == 'thorough'
	rng = random.Random(ch.subseed('world'))
	writer = ch.weighted([('dump', 4), ('cli', 1)], 'writer')
	payload = ch.weighted([('small', 22), ('large', 2), ('huge', 1)], 'payload') if not thorough else ch.weighted([('small', 8), ('large', 2), ('huge', 1)], 'payload')
	compression = ch.pick([None, 'gzip', 'lzf'], 'compression')
	if payload == 'huge' and compression == 'gzip':
		compression = 'lzf'      # deflating megabytes at every crash point costs minutes and adds nothing
	pre = ch.pick(['fresh', 'old_valid'], 'preexisting')
	path = os.path.join(ctx.scratch, 'target.gs')
	os.makedirs(ctx.scratch, exist_ok=True)

	if writer == 'dump':
		k = ch.pick([11, 1, 3, 4, 5, 8, 9, 16, 17, 24, 32], 'k') if payload != 'huge' else ch.pick([11, 9, 16], 'k_huge')
		prefix = ch.pick(['ATGAC', 'A', 'GT', 'TTT'], 'prefix')
		from gambit.kmers import index_dtype
		dtype = str(np.dtype(index_dtype(k)))
		kind = ch.pick(['SignatureArray', 'AnnotatedList', 'SignatureList', 'AnnotatedArray', 'HDF5Source', 'AnnotatedHDF5'], 'container')
		n = ch.int(1, 12, 'n') if payload != 'huge' else ch.int(6, 8, 'n_huge')
		universe = min(4 ** k, 2 ** 62)
		maxsize = dict(small=300, large=60000, huge=220000)[payload]
		arrays = []
		for i in range(n):
			r = rng.random()
			if r < 0.15 and payload != 'huge':
				size = 0
			elif payload == 'small':
				size = rng.randint(1, maxsize)
			elif payload == 'huge':
				size = rng.randint(maxsize * 4 // 5, maxsize)      # 6+ signatures of >= 176k values: more than 2**20 values in total
			else:
				size = rng.randint(maxsize // 2, maxsize)
			size = min(size, universe)
			if size > 5000:
				a = np.unique(np.array([rng.randrange(universe) for _ in range(20)] , dtype=np.uint64))
				# bulk: numpy generator seeded from rng (deterministic), much faster than python loops
				g = np.random.default_rng(rng.randrange(2 ** 32))
				a = np.unique(g.integers(0, universe, size=size, dtype=np.uint64))
			else:
				a = WS.random_set(rng, universe, size)
			arrays.append(a.astype(dtype))
		int_ids = ch.flip(0.35, 'int_ids')
		srcpath = None
		if kind in ('HDF5Source', 'AnnotatedHDF5'):
			# the source file: complete, with its own ids and metadata (written here, in the parent, before any crash run)
			from gambit.kmers import KmerSpec as _KS
			from gambit.sigs.base import SignatureArray as _SA, AnnotatedSignatures as _AS, SignaturesMeta as _SM, dump_signatures as _dump
			srcpath = os.path.join(ctx.scratch, 'source.gs')
			src_ids = np.array([f'src-{i}' for i in range(n)], dtype=object)
			src_meta = dict(id='source-file', name='the source', version='9', id_attr='genbank_acc', description='older description', extra={'from': 'source'})
			_dump(srcpath, _AS(_SA(arrays, _KS(k, prefix), dtype=np.dtype(dtype)), src_ids, _SM(**src_meta)))
		if kind == 'HDF5Source':
			ids, meta_kw = None, src_meta
			exp_ids = list(src_ids)
		elif kind.startswith('Annotated'):
			ids = np.array([1000 + 3 * i for i in range(n)], dtype=np.int64) if int_ids else np.array([f'génome/{i}' if i % 3 == 0 else f'id{i}' for i in range(n)], dtype=object)
			meta_kw = _meta(rng)
			exp_ids = [x.item() if hasattr(x, 'item') else x for x in ids]
		else:
			ids, meta_kw = None, None
			exp_ids = list(range(n))
		fn, args = _write_dump, (path, kind, arrays, k, prefix, dtype, ids, meta_kw, compression, srcpath)
		expected = dict(k=k, prefix=prefix, n=n, dtype=dtype, arrays=[(str(a.dtype), a.tobytes()) for a in arrays], ids=exp_ids, meta=_expected_meta(meta_kw))
		desc = f'dump_signatures {kind} n={n} k={k} {dtype} {payload} compression={compression} target={pre}'
		shape = (kind, compression, payload, pre, 'dump')
	else:
		# the create command: genome files -> AnnotatedSignatures(SignatureList) -> per-signature path
		from gambit.kmers import KmerSpec
		from gambit.sigs.calc import calc_signature
		k = ch.pick([6, 5, 8, 9, 11], 'k')
		prefix = ch.pick(['AT', 'GCA', 'ATGAC'], 'prefix')
		kspec = KmerSpec(k, prefix)
		dtype = str(np.dtype(kspec.index_dtype))
		n = ch.int(1, 6, 'n')
		files, arrays = [], []
		for i in range(n):
			contigs = G.make_genome(rng, rng.randint(1, 3), 200, 3000 if payload == 'small' else 60000)
			p = G.write_fasta(os.path.join(ctx.scratch, 'genomes', f'gen{i}.fasta' + ('.gz' if i % 2 else '')), contigs, gz=bool(i % 2))
			files.append(p)
			arrays.append(np.asarray(calc_signature(kspec, contigs)))
		cargs = ['signatures', 'create', '-o', path, '-k', str(k), '-p', prefix, '--no-progress']
		exp_ids = [f'gen{i}' for i in range(n)]
		meta_kw = None
		if ch.flip(0.4, 'ids_file'):
			idf = os.path.join(ctx.scratch, 'ids.txt')
			exp_ids = [f'custom-{i}' for i in range(n)]
			with open(idf, 'w') as f:
				f.write('\n'.join(exp_ids) + '\n')
			cargs += ['-i', idf]
		if ch.flip(0.4, 'meta_file'):
			meta_kw = dict(id='m-ïd', name='näme', version='0.1', id_attr='key', description=None, extra={'a': {'b': [1, 2]}})
			mf = os.path.join(ctx.scratch, 'meta.json')
			with open(mf, 'w') as f:
				json.dump(meta_kw, f)
			cargs += ['-m', mf]
		if ch.flip(0.5, 'cores'):
			cargs += ['-c', str(ch.int(1, 4, 'ncores'))]
		cargs += files
		fn, args = _write_cli, (path, cargs)
		kind = 'cli-create'
		expected = dict(k=k, prefix=prefix, n=n, dtype=dtype, arrays=[(str(a.dtype), a.tobytes()) for a in arrays], ids=exp_ids, meta=_expected_meta(meta_kw))
		desc = f'signatures create n={n} k={k} {payload} target={pre}'
		shape = ('cli-create', None, payload, pre, 'cli')

	# pre-existing valid older file (different content)
	old_bytes = None
	old_desc = None
	if pre == 'old_valid':
		from gambit.kmers import KmerSpec
		from gambit.sigs.base import SignatureArray, AnnotatedSignatures, SignaturesMeta, dump_signatures
		oks = KmerSpec(7, 'AC')
		olds = [WS.random_set(rng, 4 ** 7, rng.randint(0, 400)).astype('u2') for _ in range(rng.randint(1, 9))]
		dump_signatures(path, AnnotatedSignatures(SignatureArray(olds, oks), np.array([f'old{i}' for i in range(len(olds))], dtype=object),
		                                          SignaturesMeta(id='old-file', name='older collection')))
		with open(path, 'rb') as f:
			old_bytes = f.read()
		old_desc = crash.examine_forked(path)
		if old_desc.get('outcome') != 'loaded':
			raise HarnessError(f'pre-existing file does not load: {old_desc}')

	counts = dict(absent=0, untouched=0, refused=0, loaded_equal=0)
	# ---- baseline arm: no crash
	_restore(path, old_bytes)
	r = crash.run_forked(fn, args, None, path)
	if r['killed'] or r['info'] is None or not r['info']['ok']:
		raise HarnessError(f'fault-free write failed: {r}')
	B, W = r['info']['boundaries'], r['info']['syscalls']
	sizes, kinds = r['info']['sizes'], r['info']['kinds']
	names = r['info']['names']
	code = _judge(ctx, desc, 'never (fault-free arm)', path, old_bytes, expected, counts, None)
	if code != 'L':
		ctx.violation('C19.loaded-different', f'{desc}: the fault-free write does not load back ({code})')
	ctx.stats['executions'] += 1
	ctx.log('write', desc=desc, B=B, W=W, names=''.join(n[0] for n in names), sizes=sizes[:40], kinds=kinds[:60], payload_bytes=sum(len(b) for _, b in expected['arrays']))
	close_at = max([i for i, nm in enumerate(names) if nm == 'file.close'] or [B])
	# ---- every h5py boundary
	out_b = []
	for i in range(B):
		_restore(path, old_bytes)
		r = crash.run_forked(fn, args, ('h5', i), path)
		if not r['killed']:
			raise HarnessError(f'child was not killed at boundary {i}: {r}')
		ctx.fault('kill_at_h5_boundary')
		ctx.tick()
		ctx.stats['executions'] += 1
		c = _judge(ctx, desc, f'before h5py call {i} ({names[i]}) of {B}', path, old_bytes, expected, counts, old_desc)
		out_b.append(c)
		ctx.key(shape, 'h5', i, c)
		ctx.state(shape, 'h5', c)
	# ---- the process dies from a signal it could have handled: SIGINT (Python turns it into KeyboardInterrupt and
	# unwinds - every boundary), SIGTERM (default disposition kills at once - a drawn subset of boundaries)
	out_i = []
	term_points = sorted({ch.int(0, max(0, B - 1), f'term{j}') for j in range(min(4, B))}) if B else []
	for how, points in (('h5term', term_points), ('h5int', list(range(B)))):
		for i in points:
			_restore(path, old_bytes)
			r = crash.run_forked(fn, args, (how, i), path)
			died = r['killed'] or (r['info'] is not None and not r['info']['ok'])
			if not died:
				raise HarnessError(f'child survived {how} at boundary {i}: {r}')
			ctx.fault('interrupt_at_h5_boundary' if how == 'h5int' else 'sigterm_at_h5_boundary')
			ctx.tick()
			ctx.stats['executions'] += 1
			c = _judge(ctx, desc, f'by {"KeyboardInterrupt (SIGINT)" if how == "h5int" else "SIGTERM"} before h5py call {i} ({names[i]}) of {B}', path, old_bytes, expected, counts, old_desc)
			out_i.append(c)
			ctx.key(shape, how, i, c)
			ctx.state(shape, how, c)
	# ---- every write-class system call, plus torn variants of multi-page writes
	out_s = []
	pre_close_data = 0
	for j in range(1, W + 1):
		variants = [0]
		sz = sizes[j - 1] if j - 1 < len(sizes) else 0
		if kinds[j - 1:j] == 'w' and sz > 4096:
			pages = sz // 4096
			variants.append(4096 * ch.int(1, max(1, min(pages, 64) - (1 if sz % 4096 == 0 else 0)) or 1, f'tear{j}'))
			if pages > 8:
				variants.append(4096 * (pages - 1))
		for tear in variants:
			_restore(path, old_bytes)
			r = crash.run_forked(fn, args, ('sys', j, tear), path)
			if not r['killed']:
				raise HarnessError(f'child was not killed at system call {j}: {r}')
			ctx.fault('kill_at_syscall' if not tear else 'kill_inside_torn_write')
			ctx.tick()
			ctx.stats['executions'] += 1
			c = _judge(ctx, desc, f'at write-class system call {j} of {W} ({kinds[j - 1:j]} {sz} bytes' + (f', torn after {tear}' if tear else '') + ')',
			           path, old_bytes, expected, counts, old_desc)
			out_s.append(c)
			ctx.key(shape, 'sys', j, tear > 0, c)
			ctx.state(shape, 'sys' if not tear else 'tear', c)
	ctx.log('outcomes', h5=''.join(out_b), sig=''.join(out_i), sys=''.join(out_s), counts=counts)
	ctx.stats['writes'] += 1
	ctx.stats['crash_points'] += len(out_b) + len(out_s) + len(out_i)
	if payload != 'small':
		ctx.probe('multi_megabyte_payload' if sum(len(b) for _, b in expected['arrays']) > 2 ** 20 else 'large_payload')
	if any(s > 65536 for s in sizes):
		ctx.probe('raw_data_write_bypassing_sieve_buffer')
	if counts['loaded_equal'] > 1:
		ctx.probe('crash_after_last_metadata_write_loads_equal')
	if 'U' in out_b or 'U' in out_s or 'O' in out_b or 'O' in out_s:
		ctx.probe('crash_before_old_file_touched')
	ctx.sample = dict(desc=desc, B=B, W=W, h5=''.join(out_b), sig=''.join(out_i), sys=''.join(out_s))
	_restore(path, None)
