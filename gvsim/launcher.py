"""./check <id> quick|thorough | --replay FILE | --selftest determinism|fidelity ...   (DESIGN 3.3, 8)"""
import hashlib
import json
import os
import re
import shutil
import subprocess
import sys
import tempfile
import time
from collections import Counter

VERIF = os.path.dirname(os.path.dirname(os.path.abspath(__file__)))
PY = os.environ.get('GVSIM_PYTHON', '/venv/bin/python')
WORKER_MAIN = os.path.join(VERIF, 'gvsim', '_worker_main.py')
NCPU = int(os.environ.get('VERIF_WORKERS', '0')) or min(16, os.cpu_count() or 1)
BUILD = os.path.join(VERIF, 'build')


def repo_dir():
	return os.environ.get('GAMBIT_VERIF_REPO', '/repo')


def repo_head():
	try:
		return subprocess.run(['git', '-C', repo_dir(), 'rev-parse', '--short', 'HEAD'], capture_output=True, text=True).stdout.strip()
	except Exception:
		return 'unknown'


def base_env():
	env = dict(os.environ)
	env['PYTHONHASHSEED'] = os.environ.get('GVSIM_HASHSEED', '0')
	env['PYTHONDONTWRITEBYTECODE'] = '1'
	env['GAMBIT_VERIF_REPO'] = repo_dir()
	env.setdefault('OMP_NUM_THREADS', '4')
	env['OPENBLAS_NUM_THREADS'] = '1'
	env['MKL_NUM_THREADS'] = '1'
	env.pop('PYTHONPATH', None)
	return env


def worker_env(spec):
	"""spec: dict with optional keys preload (list of shim names), env (dict)."""
	env = base_env()
	pre = [os.path.join(BUILD, name) for name in spec.get('preload', [])]
	if pre:
		env['LD_PRELOAD'] = ':'.join(pre)
	for k, v in spec.get('env', {}).items():
		env[k] = v
	return env


def env_header(spec):
	return dict(LD_PRELOAD=spec.get('preload', []), PYTHONHASHSEED=os.environ.get('GVSIM_HASHSEED', '0'), **spec.get('env', {}))


def ensure_built(quiet=True):
	r = subprocess.run([os.path.join(VERIF, 'setup.sh')] + (['--quiet'] if quiet else []), cwd=VERIF)
	if r.returncode != 0:
		print('HARNESS-ERROR: setup.sh failed', flush=True)
		sys.exit(2)


def spawn(prop, tier, seed, spec, runs, tmpdir, tag, extra=None):
	out = os.path.join(tmpdir, f'{tag}.jsonl')
	args = dict(prop=prop, tier=tier, seed=seed, runs=runs, out=out)
	if extra:
		args.update(extra)
	log = open(os.path.join(tmpdir, f'{tag}.log'), 'w')
	argfile = os.path.join(tmpdir, f'{tag}.args.json')     # not argv: choice sequences can be long
	with open(argfile, 'w') as f:
		json.dump(args, f)
	p = subprocess.Popen([PY, WORKER_MAIN, '@' + argfile], env=worker_env(spec), cwd=VERIF, stdout=log, stderr=subprocess.STDOUT)
	return p, out, log


def run_batch(prop, tier, seed, nworkers=None, run_list=None, hashseed=None, quiet=False, sample_n=3):
	"""Run all runs of a tier. Returns (records sorted by run, keys, states, errors, wall)."""
	from gvsim import props
	mod = props.get(prop)
	nworkers = nworkers or NCPU
	envs = mod.envs(tier)
	total = mod.RUNS[tier]
	all_runs = list(range(total)) if run_list is None else list(run_list)
	groups = [[r for r in all_runs if r % len(envs) == e] for e in range(len(envs))]
	# workers per env group, proportional, at least one for non-empty groups
	nonempty = [e for e in range(len(envs)) if groups[e]]
	share = {e: max(1, (nworkers * len(groups[e])) // max(1, len(all_runs))) for e in nonempty}
	sweep_stale_scratch()
	tmpdir = tempfile.mkdtemp(prefix=f'gvsim-{prop}-', dir=_tmp_root())
	t0 = time.time()
	procs = []
	old_hs = os.environ.get('GVSIM_HASHSEED')
	if hashseed is not None:
		os.environ['GVSIM_HASHSEED'] = str(hashseed)
	try:
		sample_runs = all_runs[:sample_n]
		for e in nonempty:
			w = share[e]
			for i in range(w):
				runs = [r for r in groups[e] if _slot(r, w) == i]
				if not runs:
					continue
				extra = dict(sample_runs=sample_runs)
				extra.update(getattr(mod, 'WORKER_ARGS', {}))
				procs.append(spawn(prop, tier, seed, envs[e], runs, tmpdir, f'e{e}w{i}', extra) + (e, runs))
		records, keys, states, errors = [], set(), set(), []
		for p, out, log, e, runs in procs:
			rc = p.wait()
			log.close()
			got = []
			summary = None
			if os.path.exists(out):
				with open(out) as f:
					for line in f:
						line = line.strip()
						if not line:
							continue
						try:
							rec = json.loads(line)
						except Exception:
							continue
						if rec.get('summary'):
							summary = rec
						else:
							rec['env'] = e
							rec['worker_prefix'] = [x['run'] for x in got]
							got.append(rec)
			if rc != 0 or summary is None or len(got) != len(runs):
				tail = ''
				try:
					with open(log.name) as f:
						tail = f.read()[-3000:]
				except Exception:
					pass
				errors.append(f'worker env={e} exit={rc} produced {len(got)}/{len(runs)} runs\n{tail}')
			if summary:
				keys |= set(summary['keys'])
				states |= set(summary['states'])
			records.extend(got)
		for rec in records:
			if rec.get('error'):
				errors.append(f'run {rec["run"]}: {rec["error"]}')
		records.sort(key=lambda r: r['run'])
		return records, keys, states, errors, time.time() - t0
	finally:
		if old_hs is None:
			os.environ.pop('GVSIM_HASHSEED', None)
		else:
			os.environ['GVSIM_HASHSEED'] = old_hs
		shutil.rmtree(tmpdir, ignore_errors=True)


def sweep_stale_scratch():
	"""Scratch directories of workers that were killed (watchdog, vp stop) stay behind: remove those whose process is gone."""
	root = _tmp_root()
	try:
		names = os.listdir(root)
	except OSError:
		return
	for name in names:
		m = re.match(r'^gvsim-(\d+)$', name)
		if m and not os.path.exists(f'/proc/{m.group(1)}'):
			shutil.rmtree(os.path.join(root, name), ignore_errors=True)


def _slot(run, w):
	"""Static, load-independent assignment of run indices to workers (a plain stride would alias with
	run-index-based arms such as 'every fourth run is exhaustive')."""
	return int.from_bytes(hashlib.sha256(str(run).encode()).digest()[:4], 'big') % w


def _tmp_root():
	for d in (os.environ.get('VERIF_SCRATCH'), '/dev/shm', '/var/tmp'):
		if d and os.path.isdir(d) and os.access(d, os.W_OK):
			return d
	return tempfile.gettempdir()


def replay_in_fresh_interpreter(prop, tier, seed, run, choices, spec, mode='replay', klass=None, prefix=None):
	tmpdir = tempfile.mkdtemp(prefix=f'gvsim-replay-{prop}-', dir=_tmp_root())
	try:
		from gvsim import props
		mod = props.get(prop)
		extra = dict(mode=mode, run=run, choices=choices, klass=klass, prefix=prefix or [])
		extra.update(getattr(mod, 'WORKER_ARGS', {}))
		p, out, log = spawn(prop, tier, seed, spec, [], tmpdir, 'replay', extra)
		rc = p.wait()
		log.close()
		rec = None
		if os.path.exists(out):
			with open(out) as f:
				for line in f:
					if line.strip():
						rec = json.loads(line)
		if rec is None:
			with open(log.name) as f:
				return None, f'replay worker exit={rc}\n' + f.read()[-3000:]
		return rec, None
	finally:
		shutil.rmtree(tmpdir, ignore_errors=True)


def load_known():
	path = os.path.join(VERIF, 'known_findings.json')
	if not os.path.exists(path):
		return []
	with open(path) as f:
		return json.load(f)


def match_known(known, v):
	for k in known:
		if k.get('status') != 'known' or k.get('property') != v['property']:
			continue
		if k.get('klass') and k['klass'] != v['klass']:
			continue
		if k.get('key_regex') and not re.search(k['key_regex'], v['key']):
			continue
		if k.get('key') and k['key'] != v['key']:
			continue
		return k
	return None


def write_evidence(prop, tier, seed, mod, records, keys, states, wall, n_violations, n_known, extra_cov=None):
	stats, faults, probes = Counter(), Counter(), Counter()
	for r in records:
		stats.update(r.get('stats', {}))
		faults.update(r.get('faults', {}))
		probes.update(r.get('probes', {}))
	samples = []
	for r in records:
		if 'events' in r and r.get('violation') is None and len(samples) < 3:
			ev = r['events']
			if len(ev) > 80:
				ev = ev[:60] + [['...', f'{len(ev) - 80} events omitted', {}]] + ev[-20:]
			samples.append(dict(run=r['run'], digest=r['digest'], summary=r.get('sample'), event_log=ev))
	if not samples:
		samples = [dict(run=r['run'], digest=r['digest'], summary=r.get('sample')) for r in records[:3]]
	evaluations = int(stats.get(getattr(mod, 'EVAL_COUNTER', 'executions'), 0)) or len(records)
	cov = dict(
		evaluations=evaluations,
		distinct_nontrivial=len(keys),
		rule=mod.RULE,
		samples=samples,
		runs=len(records),
		seeds=dict(master=seed, derivation='random.Random(sha256(f"{seed}:{prop}:{run}")) per run'),
		runs_per_hour=round(len(records) / wall * 3600) if wall > 0 else None,
		executions_per_hour=round(evaluations / wall * 3600) if wall > 0 else None,
		logical_steps=int(stats.get('steps', 0)),
		simulated_time='none: gambit has no clock, timer or deadline; coverage is counted in logical steps (scheduler decisions, hand-outs, crash points, history operations)',
		fault_kinds_fired=dict(sorted(faults.items())),
		reach_probes=dict(sorted(probes.items())),
		counters=dict(sorted(stats.items())),
		distinct_states=len(states),
		states_measure=getattr(mod, 'STATES_MEASURE', 'distinct (n, completion order) / schedule signatures reached'),
		real_components=mod.REAL,
		stub_components=mod.STUB,
		environments=[env_header(s) for s in mod.envs(tier)],
		repo_head=repo_head(),
		exhaustive=bool(getattr(mod, 'EXHAUSTIVE', False)),
	)
	if extra_cov:
		cov.update(extra_cov)
	if hasattr(mod, 'coverage_extra'):
		cov.update(mod.coverage_extra(records, stats))
	ev = dict(property_id=prop, tier=tier, seed=seed, level=mod.LEVEL, coverage=cov,
	          assumptions=mod.ASSUMPTIONS, wall_s=round(wall, 2), violations=n_violations, known_findings=n_known)
	os.makedirs(os.path.join(VERIF, 'evidence'), exist_ok=True)
	path = os.path.join(VERIF, 'evidence', f'{prop}.json')
	tmp = path + '.tmp'
	with open(tmp, 'w') as f:
		json.dump(ev, f, indent=1, default=str)
		f.write('\n')
	os.replace(tmp, path)
	return ev


def cmd_check(prop, tier):
	from gvsim import props
	ensure_built()
	mod = props.get(prop)
	seed = int(os.environ.get('VERIF_SEED', '0') or 0)
	print(f'[gvsim] property={prop} tier={tier} VERIF_SEED={seed} runs={mod.RUNS[tier]} workers={NCPU} repo={repo_dir()}@{repo_head()}', flush=True)
	records, keys, states, errors, wall = run_batch(prop, tier, seed)
	envs = mod.envs(tier)
	if hasattr(mod, 'cross_check'):
		errors.extend(mod.cross_check(records))
	known = load_known()
	viol = [r for r in records if r.get('violation')]
	n_known = 0
	exit_code = 0
	os.makedirs(os.path.join(VERIF, 'replays'), exist_ok=True)
	for fn in os.listdir(os.path.join(VERIF, 'replays')):
		if fn.startswith(f'{prop}-{seed}-'):
			os.unlink(os.path.join(VERIF, 'replays', fn))
	known_printed = set()
	unknown = []
	for r in viol:
		v = r['violation']
		k = match_known(known, v)
		if k is not None:
			n_known += 1
			tag = (k.get('klass'), k.get('what'))
			if tag not in known_printed:
				known_printed.add(tag)
				print(f'KNOWN-FINDING: property={prop} {k["what"]}', flush=True)
			continue
		unknown.append(r)
	# one report per violated clause (klass), smallest original choice sequence first, at most 5
	unknown.sort(key=lambda r: (r.get('original_len', 0), r['run']))
	chosen = {}
	for r in unknown:
		chosen.setdefault(r['violation']['klass'], r)
	chosen = list(chosen.values())[:5]
	# minimise each in its own fresh interpreter, in parallel
	from concurrent.futures import ThreadPoolExecutor
	def _min(r):
		spec = envs[r['run'] % len(envs)]
		return replay_in_fresh_interpreter(prop, tier, seed, r['run'], r['choices'], spec, mode='minimise', klass=r['violation']['klass'])
	if chosen:
		with ThreadPoolExecutor(len(chosen)) as ex:
			mins = list(ex.map(_min, chosen))
	else:
		mins = []
	for r, (mrec, merr) in zip(chosen, mins):
		v = r['violation']
		spec = envs[r['run'] % len(envs)]
		cands = []
		if mrec and mrec.get('violation'):
			cands.append((mrec['choices'], mrec['events'], mrec['digest'], mrec['violation']))
		cands.append((r['choices'], r.get('events', []), r['digest'], r['violation']))
		confirmed = False
		err = merr
		for choices, events, digest, v in cands:
			rec, err = replay_in_fresh_interpreter(prop, tier, seed, r['run'], choices, spec)
			confirmed = bool(rec is not None and rec.get('violation') and rec['violation']['klass'] == v['klass'] and rec['digest'] == digest)
			if confirmed:
				events = rec.get('events', events)
				break
		prefix = []
		if not confirmed and r.get('worker_prefix'):
			# The violation depends on state an earlier run left behind in the same worker process (module-level caches,
			# thread-local buffers ...). Replay = the earlier runs of that worker (regenerated from the seed), then this run.
			# Shrink the prefix to the shortest suffix that still reproduces (bisection over suffixes).
			choices, events, digest, v = r['choices'], r.get('events', []), r['digest'], r['violation']
			full = list(r['worker_prefix'])
			def ok_with(pref):
				rec2, err2 = replay_in_fresh_interpreter(prop, tier, seed, r['run'], choices, spec, prefix=pref)
				return rec2 if (rec2 is not None and rec2.get('violation') and rec2['violation']['klass'] == v['klass']) else None
			rec = ok_with(full)
			if rec is not None:
				lo, hi = 0, len(full)          # invariant: suffix starting at lo reproduces
				for _ in range(12):
					if hi - lo <= 1:
						break
					mid = (lo + hi) // 2
					r2 = ok_with(full[mid:])
					if r2 is not None:
						lo, rec = mid, r2
					else:
						hi = mid
				prefix = full[lo:]
				confirmed = True
				digest = rec['digest']
				events = rec.get('events', events)
		path = os.path.join(VERIF, 'replays', f'{prop}-{seed}-{r["run"]}.json')
		doc = dict(property=prop, seed=seed, run=r['run'], tier=tier, env=env_header(spec), choices=choices, prefix_runs=prefix,
		           trace=events, violation=v, digest=digest, minimised_from=r.get('original_len', len(r.get('choices', []))),
		           minimised_to=len(choices), repo_head=repo_head(), replay_confirmed=bool(confirmed))
		with open(path, 'w') as f:
			json.dump(doc, f, indent=1, default=str)
		if confirmed:
			print(f'VIOLATION property={prop} replay={path}', flush=True)
			print(f'  {v["klass"]}: {v["key"]}', flush=True)
			exit_code = 1
		else:
			errors.append(f'violation of run {r["run"]} ({v["klass"]}) did not reproduce in a fresh interpreter: {err or (rec or {}).get("violation")}')
	n_viol = len(viol) - n_known
	ev = write_evidence(prop, tier, seed, mod, records, keys, states, wall, n_viol, n_known)
	cov = ev['coverage']
	print(f'[gvsim] {prop}: runs={len(records)} evaluations={cov["evaluations"]} distinct_nontrivial={cov["distinct_nontrivial"]} '
	      f'steps={cov["logical_steps"]} faults={sum(cov["fault_kinds_fired"].values())} violations={n_viol} known={n_known} wall={wall:.1f}s', flush=True)
	if errors:
		for e in errors[:5]:
			print('HARNESS-ERROR: ' + e.replace('\n', '\n    '), flush=True)
		return 1 if exit_code == 1 else 2
	return exit_code


def cmd_replay(prop, path):
	ensure_built()
	with open(path) as f:
		doc = json.load(f)
	from gvsim import props
	mod = props.get(doc['property'])
	envs = mod.envs(doc.get('tier', 'quick'))
	spec = envs[doc['run'] % len(envs)]
	rec, err = replay_in_fresh_interpreter(doc['property'], doc.get('tier', 'quick'), doc['seed'], doc['run'], doc['choices'], spec, prefix=doc.get('prefix_runs') or [])
	if rec is None:
		print('HARNESS-ERROR: ' + str(err))
		return 2
	if rec.get('error'):
		print('HARNESS-ERROR: ' + rec['error'])
		return 2
	v = rec.get('violation')
	same_digest = rec['digest'] == doc.get('digest')
	print(f'[gvsim] replay of {path}: digest {"identical" if same_digest else "DIFFERENT"} ({rec["digest"][:16]})')
	if v:
		print(f'VIOLATION property={doc["property"]} replay={path}')
		print(f'  {v["klass"]}: {v["key"]}')
		if v.get('detail'):
			print('  ' + str(v['detail'])[:500])
		return 1
	print('[gvsim] replay finished without violation (the tree under test no longer breaks this schedule)')
	return 0


def cmd_selftest_determinism(props_list, n=200):
	from gvsim import props
	ensure_built()
	bad = 0
	for prop in props_list:
		mod = props.get(prop)
		runs = list(range(min(n, mod.RUNS['quick'])))
		configs = [(1, 0), (NCPU, 0), (NCPU, 12345), (NCPU, 7)]
		table = {}
		for nw, hs in configs:
			for rep in range(2 if (nw, hs) == (NCPU, 0) else 1):
				records, keys, states, errors, wall = run_batch(prop, 'quick', int(os.environ.get('VERIF_SEED', '0') or 0), nworkers=nw, run_list=runs, hashseed=hs, sample_n=0)
				if errors:
					print(f'HARNESS-ERROR: {prop} workers={nw} hashseed={hs}: {errors[0][:2000]}')
					bad += 1
				for r in records:
					table.setdefault(r['run'], []).append((nw, hs, rep, r['digest']))
		mism = [run for run, lst in table.items() if len({d for *_, d in lst}) != 1]
		incomplete = [run for run, lst in table.items() if len(lst) != 5]
		print(f'[selftest determinism] {prop}: {len(table)} run indices x 5 executions (1 worker; {NCPU} workers twice; PYTHONHASHSEED 0/12345/7): '
		      f'{len(mism)} mismatching, {len(incomplete)} incomplete')
		for run in mism[:5]:
			print('   run', run, table[run])
		bad += len(mism) + len(incomplete)
	return 0 if bad == 0 else 2


def main(argv):
	sys.path.insert(0, VERIF)
	if len(argv) >= 2 and argv[0] == '--selftest':
		kind = argv[1]
		from gvsim import props
		plist = argv[2:] or [p for p in props.CLAIMED if os.path.exists(os.path.join(VERIF, 'gvsim', 'props', p.lower() + '.py'))]
		if kind == 'determinism':
			return cmd_selftest_determinism(plist)
		if kind in ('sensitivity', 'fidelity'):
			from gvsim import selftest
			return getattr(selftest, kind)(plist)
		print('unknown selftest', kind)
		return 2
	if len(argv) >= 3 and argv[1] == '--replay':
		return cmd_replay(argv[0], argv[2])
	if len(argv) >= 1:
		prop = argv[0]
		tier = argv[1] if len(argv) > 1 else os.environ.get('VERIF_TIER', 'quick')
		if tier not in ('quick', 'thorough'):
			print('tier must be quick or thorough')
			return 2
		return cmd_check(prop, tier)
	print(__doc__)
	return 2
