"""gvsim - deterministic simulation with fault injection for jlumpe/gambit.

See /verif/DESIGN.md. One engine (engine.py), several seams (seams/), world
builders (worlds/), reference models (oracles/) and one scenario per claimed
property (props/).
"""
