"""Core of the simulator: choice sequence, event log, violations, one run, minimiser.

A run is a pure function of (property, choice sequence, code under test,
interpreter environment).  In *generate* mode the choice sequence is drawn from
random.Random(sha256(f"{seed}:{prop}:{run}")); in *replay* mode it is read back.
Nothing in here reads a clock, the process id, or any hash-randomised order for
anything that ends up in the event log.
"""
import hashlib
import json
import os
import random
import shutil
import time
import traceback
from collections import Counter


class Violation(Exception):
	"""Raised by an oracle: the property is broken on this execution."""

	def __init__(self, prop, klass, key, detail=''):
		super().__init__(f'{klass}: {key}')
		self.prop = prop
		self.klass = klass
		self.key = key
		self.detail = detail

	def to_json(self):
		return dict(property=self.prop, klass=self.klass, key=self.key, detail=self.detail)


class HarnessError(Exception):
	"""Something is wrong with the machinery, not with gambit."""


class Chooser:
	"""Every decision of a run goes through here (DESIGN 3.1)."""

	def __init__(self, rng=None, replay=None):
		assert (rng is None) != (replay is None)
		self.rng = rng
		self.replay = None if replay is None else [c[2] if isinstance(c, (list, tuple)) else c for c in replay]
		self.pos = 0
		self.trace = []

	def _draw(self, n, label):
		n = int(n)
		if n <= 0:
			raise HarnessError(f'choice {label!r} has no alternatives')
		if self.replay is not None:
			if self.pos < len(self.replay):
				v = int(self.replay[self.pos])
				if v < 0:
					v = 0
				if v >= n:
					v = n - 1
			else:
				v = 0
			self.pos += 1
		else:
			v = self.rng.randrange(n)
		self.trace.append([label, n, v])
		return v

	def int(self, lo, hi, label):
		"""Integer in lo..hi inclusive; shrinks towards lo."""
		return lo + self._draw(hi - lo + 1, label)

	def pick(self, seq, label):
		"""Element of seq; shrinks towards the first."""
		return seq[self._draw(len(seq), label)]

	def flip(self, p, label):
		"""True with probability p; shrinks towards False."""
		v = self._draw(1000, label)
		return v >= 1000 - int(round(p * 1000))

	def perm(self, n, label):
		"""Permutation of range(n); all-zero draws give the identity."""
		rem = list(range(n))
		out = []
		for i in range(n):
			out.append(rem.pop(self._draw(n - i, f'{label}[{i}]')))
		return out

	def subseed(self, label):
		"""One entry of the choice sequence standing for bulk content."""
		return self._draw(2 ** 32, label)

	def weighted(self, pairs, label):
		"""pairs = [(value, weight)...]; first entry is what shrinking prefers."""
		total = sum(w for _, w in pairs)
		v = self._draw(total, label)
		acc = 0
		for value, w in pairs:
			acc += w
			if v < acc:
				return value
		return pairs[-1][0]


def run_rng(seed, prop, run):
	h = hashlib.sha256(f'{seed}:{prop}:{run}'.encode()).digest()
	return random.Random(int.from_bytes(h[:16], 'big'))


def blob_hash(data):
	"""Short stable hash of bytes / numpy arrays / str, used in event logs."""
	if hasattr(data, 'tobytes'):
		h = hashlib.sha256(str(getattr(data, 'dtype', '')).encode() + str(getattr(data, 'shape', '')).encode())
		h.update(data.tobytes())
		return h.hexdigest()[:12]
	if isinstance(data, str):
		data = data.encode('utf-8', 'surrogateescape')
	return hashlib.sha256(bytes(data)).hexdigest()[:12]


class Ctx:
	"""What a scenario sees of the engine."""

	def __init__(self, prop, seed, run, tier, ch, scratch_root):
		self.prop = prop
		self.seed = seed
		self.run = run
		self.tier = tier
		self.ch = ch
		self.events = []
		self.step = 0
		self.stats = Counter()      # plain counters (executions, steps ...)
		self.faults = Counter()     # fault kind -> times actually fired
		self.probes = Counter()     # reach probes
		self.keys = set()           # distinct non-trivial case keys (hashed)
		self.states = set()         # optional second measure (schedule signatures, history shapes ...)
		self.scratch_root = scratch_root
		self._scratch = None
		self.sample = None          # scenario may set a compact description of this run

	# -- logging: never draws, never reads a clock
	def log(self, kind, **payload):
		self.events.append([self.step, kind, payload])

	def tick(self, n=1):
		self.step += n
		self.stats['steps'] += n

	def fault(self, kind, **payload):
		self.faults[kind] += 1
		self.events.append([self.step, 'fault:' + kind, payload])

	def probe(self, name, n=1):
		self.probes[name] += n

	def key(self, *parts):
		self.keys.add(hashlib.sha256(repr(parts).encode()).hexdigest()[:16])

	def state(self, *parts):
		self.states.add(hashlib.sha256(repr(parts).encode()).hexdigest()[:16])

	def violation(self, klass, key, detail=''):
		raise Violation(self.prop, klass, key, detail)

	@property
	def scratch(self):
		if self._scratch is None:
			d = os.path.join(self.scratch_root, f'{self.prop}-r{self.run}')
			shutil.rmtree(d, ignore_errors=True)
			os.makedirs(d)
			self._scratch = d
		return self._scratch

	def cleanup(self):
		if self._scratch is not None:
			shutil.rmtree(self._scratch, ignore_errors=True)
			self._scratch = None

	def digest(self):
		return hashlib.sha256(json.dumps(self.events, sort_keys=True, default=str).encode()).hexdigest()


class RunResult:
	__slots__ = ('prop', 'seed', 'run', 'digest', 'choices', 'violation', 'events', 'stats', 'faults',
	             'probes', 'keys', 'states', 'sample', 'n_events', 'error')

	def to_json(self, with_events=False, with_choices=False):
		d = dict(run=self.run, digest=self.digest, n_events=self.n_events,
		         violation=None if self.violation is None else self.violation.to_json(),
		         stats=dict(self.stats), faults=dict(self.faults), probes=dict(self.probes),
		         error=self.error, sample=self.sample)
		if with_events or self.violation is not None:
			d['events'] = self.events
		if with_choices or self.violation is not None:
			d['choices'] = self.choices
		return d


def scratch_root():
	root = os.environ.get('VERIF_SCRATCH')
	if not root:
		root = '/dev/shm' if os.path.isdir('/dev/shm') and os.access('/dev/shm', os.W_OK) else '/var/tmp'
	d = os.path.join(root, f'gvsim-{os.getpid()}')
	os.makedirs(d, exist_ok=True)
	return d


def execute(scenario, prop, seed, run, tier, choices=None, root=None, rng_run=None):
	"""Execute one run. Returns RunResult; never raises Violation."""
	if choices is None:
		ch = Chooser(rng=run_rng(seed, prop, run if rng_run is None else rng_run))
	else:
		ch = Chooser(replay=choices)
	ctx = Ctx(prop, seed, run, tier, ch, root or scratch_root())
	res = RunResult()
	res.prop, res.seed, res.run = prop, seed, run
	res.violation = None
	res.error = None
	try:
		scenario(ctx)
	except Violation as v:
		res.violation = v
		ctx.log('VIOLATION', **v.to_json())
	except HarnessError as e:
		res.error = 'HarnessError: ' + ''.join(traceback.format_exception(e))
	except BaseException as e:  # noqa - anything else out of a scenario is a harness bug
		if isinstance(e, (SystemExit,)) and e.code == 97:
			raise
		res.error = 'Unexpected: ' + ''.join(traceback.format_exception(e))
	finally:
		ctx.cleanup()
	# scratch paths contain the worker's pid: keep them out of everything that is hashed or reported
	root_s = ctx.scratch_root
	ctx.events = json.loads(json.dumps(ctx.events, default=str).replace(root_s, '<scratch>'))
	if res.violation is not None:
		res.violation.key = str(res.violation.key).replace(root_s, '<scratch>')
		res.violation.detail = str(res.violation.detail).replace(root_s, '<scratch>')
	res.digest = ctx.digest()
	res.choices = ch.trace
	res.events = ctx.events
	res.n_events = len(ctx.events)
	res.stats, res.faults, res.probes = ctx.stats, ctx.faults, ctx.probes
	res.keys, res.states = ctx.keys, ctx.states
	res.sample = ctx.sample
	return res


# ---------------------------------------------------------------------------------------------
# Minimiser: delta debugging over the choice sequence (DESIGN 3.2)

def minimise(scenario, prop, seed, run, tier, choices, klass, root=None, max_exec=300, max_s=60.0):
	"""Shrink `choices` while a violation of the same klass persists.

	Returns (choices, result, n_executions).
	"""
	t0 = time.monotonic()
	n_exec = 0
	best = [list(c) for c in choices]
	best_res = None

	def attempt(cand):
		nonlocal n_exec, best, best_res
		if n_exec >= max_exec or time.monotonic() - t0 > max_s:
			return False
		n_exec += 1
		r = execute(scenario, prop, seed, run, tier, choices=cand, root=root)
		if r.violation is not None and r.violation.klass == klass and r.error is None:
			# keep the *consumed* trace: it is canonical (clamped, right length) - but only if it is
			# really smaller (shorter, or same length with a smaller value sum), which also bounds the search
			if best_res is None or measure(r.choices) < measure(best):
				best = [list(c) for c in r.choices]
				best_res = r
				return True
		return False

	def measure(ch):
		return (len(ch), sum(c[2] for c in ch))

	# canonicalise first
	attempt(best)
	if best_res is None:
		return choices, None, n_exec

	# 0. structured deletion: scenarios draw one block of choices per command / execution / operation, labelled
	#    '<letter><index>.<what>' (c3.fmt, e0.mode, o5.kind ...), preceded by a counter (n_cmd, n_exec, n_ops, n_steps).
	#    Removing a whole block and decrementing the counter keeps every other block aligned.
	import re as _re
	COUNTERS = ('n_cmd', 'n_exec', 'n_ops', 'n_steps', 'n_exec_large')

	def blocks(seq):
		out, cur, cur_key = [], None, None
		for i, c in enumerate(seq):
			m = _re.match(r'^([a-z]+)(\d+)\.', str(c[0]))
			if m and m.group(1) in ('c', 'e', 'o', 's', 'w'):
				key = (m.group(1), m.group(2))
				if key != cur_key:
					if cur is not None:
						out.append(cur)
					cur, cur_key = [i, i + 1], key
				else:
					cur[1] = i + 1
			elif cur is not None:
				cur[1] = i + 1          # unlabelled draws (scheduler picks, quanta) belong to the block before them
		if cur is not None:
			out.append(cur)
		return out

	progress = True
	while progress and n_exec < max_exec and time.monotonic() - t0 <= max_s:
		progress = False
		bl = blocks(best)
		cidx = [i for i, c in enumerate(best) if c[0] in COUNTERS and c[2] > 0]
		if not bl or not cidx:
			break
		for a, b in reversed(bl):
			ci = max([i for i in cidx if i < a], default=None)
			if ci is None:
				continue
			cand = [list(c) for c in best[:a]] + [list(c) for c in best[b:]]
			cand[ci][2] -= 1
			if attempt(cand):
				progress = True
				break

	improved = True
	while improved and n_exec < max_exec and time.monotonic() - t0 <= max_s:
		improved = False
		# 1. delete chunks, large to small
		size = max(1, len(best) // 2)
		while size >= 1:
			i = 0
			while i < len(best):
				cand = best[:i] + best[i + size:]
				if len(cand) < len(best) and attempt(cand):
					improved = True
				else:
					i += size
				if n_exec >= max_exec:
					break
			size //= 2
			if n_exec >= max_exec:
				break
		# 2. zero entries, then halve values
		for i in range(len(best)):
			if i >= len(best):
				break
			v = best[i][2]
			if v == 0:
				continue
			cand = [list(c) for c in best]
			cand[i][2] = 0
			if attempt(cand):
				improved = True
				continue
			while v > 1:
				v //= 2
				cand = [list(c) for c in best]
				if i >= len(cand):
					break
				cand[i][2] = v
				if not attempt(cand):
					break
				improved = True
			if n_exec >= max_exec:
				break
	return best, best_res, n_exec
