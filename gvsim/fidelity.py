"""Stub-fidelity self-test (DESIGN section 7): the same worlds executed with the REAL
ThreadPoolExecutor / ProcessPoolExecutor and the REAL libgomp dispenser must give what the simulated
executions give.  Uncontrolled (real scheduling), hence not a deciding check and not part of
quick/thorough; it guards the stand-ins against drifting from what they imitate.

Run as `./check --selftest fidelity`; re-executes itself in a worker environment with the shim preloaded.
"""
import json
import os
import random
import subprocess
import sys

from . import launcher


def run(props_list):
	launcher.ensure_built()
	env = launcher.worker_env(dict(preload=['gompsim.so'], env={'OMP_WAIT_POLICY': 'PASSIVE'}))
	r = subprocess.run([launcher.PY, '-c', 'import sys; sys.path.insert(0, %r); from gvsim import fidelity; sys.exit(fidelity.main())' % launcher.VERIF],
	                   env=env, cwd=launcher.VERIF)
	return 0 if r.returncode == 0 else 2


def _die():
	os._exit(3)


def main():
	repo = os.environ.get('GAMBIT_VERIF_REPO', '/repo')
	sys.path.insert(0, os.path.join(repo, 'src'))
	from gvsim.seams import executor as sx
	sx.install()
	from gvsim import engine
	from gvsim.seams import omp
	from gvsim.worlds import genomes as G
	from gvsim.worlds import sigs as WS
	import numpy as np
	from concurrent.futures.process import BrokenProcessPool
	from gambit.kmers import KmerSpec
	from gambit.seq import SequenceFile
	from gambit.sigs.calc import calc_file_signatures, calc_file_signature
	from gambit.sigs.base import SignatureArray
	from gambit.metric import jaccarddist_array, jaccarddist_matrix
	bad = 0
	root = engine.scratch_root()
	null = _Null()
	try:
		# ---- 1. pools: same worlds, simulated vs real thread pool vs real process pool
		n_worlds = n_cmp = 0
		for w in range(40):
			rng = random.Random(1000 + w)
			kspec = KmerSpec(rng.choice([5, 6, 8, 12]), rng.choice(['AT', 'G', 'ATG']))
			n = rng.randint(0, 7)
			paths = []
			broken = rng.random() < 0.3 and n > 0
			for i in range(n):
				contigs = G.make_genome(rng, rng.randint(1, 3), 100, 1500)
				gz = rng.random() < 0.4
				p = G.write_fasta(os.path.join(root, f'w{w}', f'g{i}.fa' + ('.gz' if gz else '')), contigs, gz=gz)
				paths.append(p)
			if broken:
				j = rng.randrange(n)
				kind = rng.choice(['missing', 'garbage'])
				if kind == 'missing':
					os.unlink(paths[j])
				else:
					with open(paths[j], 'wb') as f:
						f.write(b'not fasta at all\nACGT\n')
			files = [SequenceFile(p, 'fasta', 'auto') for p in paths]

			def outcome(f):
				try:
					res = f()
					return ('ret', [np.asarray(s).tobytes() for s in res])
				except BaseException as e:
					return ('raised', type(e).__name__)
			outs = {}
			outs['sequential'] = outcome(lambda: calc_file_signatures(kspec, files, concurrency=None))
			for pol in ('fifo', 'lifo', 'uniform'):
				for flav in ('threads', 'processes'):
					ctx = _Ctx(random.Random(w))
					sim = sx.Sim(ctx, machine_size=3, policy=pol)
					sx.activate(sim)
					try:
						outs[f'sim-{flav}-{pol}'] = outcome(lambda: calc_file_signatures(kspec, files, concurrency=flav, max_workers=rng.choice([1, 2, 4, None])))
					finally:
						sx.deactivate()
			for flav in ('threads', 'processes'):
				for mw in (1, 3):
					outs[f'real-{flav}-{mw}'] = outcome(lambda: calc_file_signatures(kspec, files, concurrency=flav, max_workers=mw))
			ref = outs['sequential']
			n_worlds += 1
			for name, o in outs.items():
				n_cmp += 1
				if o != ref:
					print(f'[fidelity] world {w}: {name} gives {o[0]} {o[1] if o[0] == "raised" else ""} but sequential gives {ref[0]} {ref[1] if ref[0] == "raised" else ""}')
					bad += 1
		print(f'[selftest fidelity] pools: {n_worlds} worlds x 11 executions (sequential, 6 simulated, 4 real): {n_cmp} comparisons, {bad} disagreements')

		# ---- 2. pool semantics: worker death in the real pool vs the simulated fault
		real = sx.real('ProcessPoolExecutor')(max_workers=2)
		f1 = real.submit(_die)
		try:
			f1.result()
			r_exc = None
		except BaseException as e:
			r_exc = type(e)
		try:
			real.submit(len, 'x')
			r_sub = None
		except BaseException as e:
			r_sub = type(e)
		real.shutdown(wait=True)
		ctx = _Ctx(random.Random(0))
		sim = sx.Sim(ctx, machine_size=2, policy='fifo')
		sim.task_faults = {0: 'die'}
		sx.activate(sim)
		try:
			ex = sx.SimExecutor(2, 'processes', sim=sim)
			g1 = ex.submit(len, 'abc')
			try:
				g1.result()
				s_exc = None
			except BaseException as e:
				s_exc = type(e)
			try:
				ex.submit(len, 'x')
				s_sub = None
			except BaseException as e:
				s_sub = type(e)
		finally:
			sx.deactivate()
		ok = (r_exc is s_exc is BrokenProcessPool) and (r_sub is s_sub is BrokenProcessPool)
		print(f'[selftest fidelity] worker death: real pool -> result {getattr(r_exc, "__name__", None)}, submit {getattr(r_sub, "__name__", None)}; '
		      f'simulated -> result {getattr(s_exc, "__name__", None)}, submit {getattr(s_sub, "__name__", None)}: {"ok" if ok else "MISMATCH"}')
		bad += 0 if ok else 1

		# ---- 3. OpenMP: real libgomp dispenser vs the shim, bit for bit
		n_omp = bad_omp = 0
		for w in range(60):
			rng = random.Random(5000 + w)
			refs = WS.make_collection(rng, rng.choice([1, 3, 8, 23, 40]), 4096)
			sa = SignatureArray([a.astype('u2') for a in refs], KmerSpec(6, 'AT'))
			q = refs[rng.randrange(len(refs))].astype(rng.choice(['u2', 'u4', 'i8']))
			results = []
			for t in (1, 2, 5, 16):
				omp.set_threads(t)
				results.append(('real', t, jaccarddist_array(q, sa).tobytes()))
				omp.arm(w, rng.choice(omp.THREAD_POLICIES), rng.choice(omp.ORDER_POLICIES))
				try:
					results.append(('shim', t, jaccarddist_array(q, sa).tobytes()))
				finally:
					omp.disarm()
			n_omp += len(results)
			if len({r[2] for r in results}) != 1:
				bad_omp += 1
				print(f'[fidelity] omp world {w}: results differ between real and shimmed dispensers')
		print(f'[selftest fidelity] OpenMP: 60 worlds x (real libgomp, shim) x team 1/2/5/16 = {n_omp} kernel calls, {bad_omp} worlds with differing bits')
		bad += bad_omp

		# ---- 4. the command line as a REAL process (own interpreter, real stdout, real process pool, POSIX locale) versus
		#         the in-process stand-in the checks use: same bytes on stdout / in the output file
		import subprocess
		from gvsim.seams import cli as cliseam
		n_cli = bad_cli = 0
		penv = dict(os.environ, PYTHONPATH=os.path.join(repo, 'src'), LC_ALL='C', LANG='C', OMP_NUM_THREADS='2')
		penv.pop('LD_PRELOAD', None)
		for w in range(6):
			rng = random.Random(9000 + w)
			d = os.path.join(root, f'cli{w}')
			os.makedirs(d)
			names = [b'plain_a.fasta', b'isolat_\xe9.fasta', b'isolat_\xe8.fa', b'with space.fna', b"quote's,comma.fasta", b'k(1):x;.fasta'][:rng.randint(3, 6)]
			paths = []
			base = G.make_genome(rng, 2, 400, 900)
			for nm in names:
				pth = os.path.join(os.fsencode(d), nm)
				with open(pth, 'wb') as f:
					f.write(G.fasta_bytes(G.mutate(rng, base, rng.choice([0.01, 0.1, 0.3]))))
				paths.append(os.fsdecode(pth))
			for cmd in (['tree', '-k', '6', '-p', 'AT', '--no-progress'] + paths,
			            ['tree', '-k', '7', '-p', 'GC', '-c', '2', '--no-progress'] + paths[::-1],
			            ['dist', '-k', '6', '-p', 'AT', '--no-progress', '-o', os.path.join(d, 'OUT.csv'), '--square'] + sum((['-q', x] for x in paths), [])):
				outf = os.path.join(d, 'OUT.csv')
				real = subprocess.run([sys.executable, '-m', 'gambit'] + cmd, env=penv, capture_output=True, cwd=d)
				real_out = real.stdout + (open(outf, 'rb').read() if os.path.exists(outf) else b'')
				if os.path.exists(outf):
					os.unlink(outf)
				sim = sx.Sim(_Ctx(random.Random(w)), machine_size=2, policy='fifo')
				sx.activate(sim)
				try:
					inproc = cliseam.run(cmd)
				finally:
					sx.deactivate()
				in_out = inproc.stdout.encode('utf-8', 'surrogateescape') + (open(outf, 'rb').read() if os.path.exists(outf) else b'')
				if os.path.exists(outf):
					os.unlink(outf)
				n_cli += 1
				if real.returncode != inproc.status or real_out != in_out:
					bad_cli += 1
					print(f'[fidelity] cli world {w} {cmd[0]}: real process exit {real.returncode} / in-process status {inproc.status}; outputs {"equal" if real_out == in_out else "DIFFER"}')
					print('   real   :', real_out[:200], real.stderr[-200:])
					print('   in-proc:', in_out[:200])
		print(f'[selftest fidelity] command line: {n_cli} commands run as a real process (POSIX locale, non-UTF-8 and punctuated file names) and in-process: {bad_cli} differences')
		bad += bad_cli
	finally:
		import shutil
		shutil.rmtree(root, ignore_errors=True)
	print(f'[selftest fidelity] {"ok" if bad == 0 else "FAILED"}')
	return 0 if bad == 0 else 1


class _Null:
	pass


class _Ctx:
	"""Minimal ctx for a Sim outside engine.execute()."""

	def __init__(self, rng):
		self.rng = rng
		self.ch = self

	def _draw(self, n, label):
		return self.rng.randrange(n)

	def log(self, *a, **k):
		pass

	def fault(self, *a, **k):
		pass

	def probe(self, *a, **k):
		pass

	def tick(self, *a, **k):
		pass
