/* pwkill - seam S3(b): kill the process at the n-th write-class system call on one file.
 *
 * LD_PRELOADed.  Interposes write, pwrite, pwrite64, writev, pwritev, pwritev64, ftruncate, ftruncate64,
 * fsync, fdatasync.  Calls on descriptors whose /proc/self/fd link is not the armed path are forwarded
 * untouched and not counted.  On the armed path the calls are counted (1-based); at call number
 * kill_at: if tear_bytes > 0 and the call would write more than that, the first tear_bytes bytes are
 * written; then the process receives SIGKILL (no atexit handlers, no libhdf5 close, nothing cached in
 * the process reaches the file).  kill_at <= 0: count only.          DESIGN.md 3.6 / appendix A.3.
 */
#define _GNU_SOURCE
#include <dlfcn.h>
#include <errno.h>
#include <limits.h>
#include <signal.h>
#include <stdlib.h>
#include <stdio.h>
#include <string.h>
#include <sys/types.h>
#include <sys/uio.h>
#include <unistd.h>

static char target[PATH_MAX];
static int have_target = 0;
static long kill_at = 0;
static long tear_bytes = 0;
static long count = 0;
#define CAP 4096
static long sizes[CAP];   /* size of each counted call (0 for ftruncate/fsync) */
static char kinds[CAP];   /* 'w' write-like, 't' truncate, 's' sync */

static int is_target(int fd) {
	if (!have_target) return 0;
	char link[64], buf[PATH_MAX];
	snprintf(link, sizeof link, "/proc/self/fd/%d", fd);
	ssize_t n = readlink(link, buf, sizeof buf - 1);
	if (n <= 0) return 0;
	buf[n] = 0;
	return strcmp(buf, target) == 0;
}

static void die(void) {
	raise(SIGKILL);
	for (;;) pause();
}

/* returns 1 if the caller should perform only a prefix (tear) and then die; 2 = die now; 0 = go on */
static int account(long size, char kind) {
	count++;
	if (count <= CAP) { sizes[count - 1] = size; kinds[count - 1] = kind; }
	if (kill_at > 0 && count == kill_at) {
		if (kind == 'w' && tear_bytes > 0 && size > tear_bytes) return 1;
		return 2;
	}
	return 0;
}

typedef ssize_t (*write_t)(int, const void *, size_t);
typedef ssize_t (*pwrite_t)(int, const void *, size_t, off_t);
typedef ssize_t (*pwrite64_t)(int, const void *, size_t, off64_t);
typedef ssize_t (*writev_t)(int, const struct iovec *, int);
typedef ssize_t (*pwritev_t)(int, const struct iovec *, int, off_t);
typedef ssize_t (*pwritev64_t)(int, const struct iovec *, int, off64_t);
typedef int (*ftruncate_t)(int, off_t);
typedef int (*ftruncate64_t)(int, off64_t);
typedef int (*fsync_t)(int);
typedef int (*fdatasync_t)(int);
#define REAL(name) static name##_t real_##name = NULL; if (!real_##name) real_##name = (name##_t)dlsym(RTLD_NEXT, #name)

ssize_t write(int fd, const void *buf, size_t n) {
	REAL(write);
	if (is_target(fd)) {
		int a = account((long)n, 'w');
		if (a == 1) { real_write(fd, buf, (size_t)tear_bytes); die(); }
		if (a == 2) die();
	}
	return real_write(fd, buf, n);
}

ssize_t pwrite(int fd, const void *buf, size_t n, off_t off) {
	REAL(pwrite);
	if (is_target(fd)) {
		int a = account((long)n, 'w');
		if (a == 1) { real_pwrite(fd, buf, (size_t)tear_bytes, off); die(); }
		if (a == 2) die();
	}
	return real_pwrite(fd, buf, n, off);
}

ssize_t pwrite64(int fd, const void *buf, size_t n, off64_t off) {
	REAL(pwrite64);
	if (is_target(fd)) {
		int a = account((long)n, 'w');
		if (a == 1) { real_pwrite64(fd, buf, (size_t)tear_bytes, off); die(); }
		if (a == 2) die();
	}
	return real_pwrite64(fd, buf, n, off);
}

static long iov_total(const struct iovec *iov, int cnt) {
	long t = 0;
	for (int i = 0; i < cnt; i++) t += (long)iov[i].iov_len;
	return t;
}

ssize_t writev(int fd, const struct iovec *iov, int cnt) {
	REAL(writev);
	if (is_target(fd)) {
		int a = account(iov_total(iov, cnt), 'w');
		if (a) die();   /* vector writes are not torn: die before */
	}
	return real_writev(fd, iov, cnt);
}

ssize_t pwritev(int fd, const struct iovec *iov, int cnt, off_t off) {
	REAL(pwritev);
	if (is_target(fd)) {
		int a = account(iov_total(iov, cnt), 'w');
		if (a) die();
	}
	return real_pwritev(fd, iov, cnt, off);
}

ssize_t pwritev64(int fd, const struct iovec *iov, int cnt, off64_t off) {
	REAL(pwritev64);
	if (is_target(fd)) {
		int a = account(iov_total(iov, cnt), 'w');
		if (a) die();
	}
	return real_pwritev64(fd, iov, cnt, off);
}

int ftruncate(int fd, off_t len) {
	REAL(ftruncate);
	if (is_target(fd)) { if (account(0, 't')) die(); }
	return real_ftruncate(fd, len);
}

int ftruncate64(int fd, off64_t len) {
	REAL(ftruncate64);
	if (is_target(fd)) { if (account(0, 't')) die(); }
	return real_ftruncate64(fd, len);
}

int fsync(int fd) {
	REAL(fsync);
	if (is_target(fd)) { if (account(0, 's')) die(); }
	return real_fsync(fd);
}

int fdatasync(int fd) {
	REAL(fdatasync);
	if (is_target(fd)) { if (account(0, 's')) die(); }
	return real_fdatasync(fd);
}

/* ---- control interface (ctypes) ---- */
void pwkill_arm(const char *path, long at, long tear) {
	char *rp = realpath(path, NULL);
	if (rp) { strncpy(target, rp, sizeof target - 1); free(rp); }
	else {
		/* file does not exist yet: resolve the directory, keep the base name */
		char tmp[PATH_MAX];
		strncpy(tmp, path, sizeof tmp - 1);
		tmp[sizeof tmp - 1] = 0;
		char *slash = strrchr(tmp, '/');
		if (slash) {
			*slash = 0;
			char *dir = realpath(tmp[0] ? tmp : "/", NULL);
			snprintf(target, sizeof target, "%s/%s", dir ? dir : tmp, slash + 1);
			free(dir);
		} else strncpy(target, path, sizeof target - 1);
	}
	have_target = 1;
	kill_at = at;
	tear_bytes = tear;
	count = 0;
}

void pwkill_disarm(void) { have_target = 0; kill_at = 0; }
long pwkill_count(void) { return count; }
long pwkill_sizes(long *out, char *kind_out, long cap) {
	long n = count < CAP ? count : CAP;
	if (n > cap) n = cap;
	for (long i = 0; i < n; i++) { out[i] = sizes[i]; kind_out[i] = kinds[i]; }
	return n;
}
