/* gompsim - seam S2: a seeded replacement for libgomp's dynamic work-share dispenser.
 *
 * LD_PRELOADed into the worker interpreter.  Unarmed it forwards everything to libgomp.  Armed, the
 * team is still created by the real GOMP_parallel (real threads, real team size, real barrier), but
 * GOMP_loop_nonmonotonic_dynamic_start/_next are served here: every thread of the team waits at a gate,
 * and only when all threads that are still inside the loop are at the gate does the seeded scheduler
 * pick ONE of them and hand it ONE iteration (gambit requests chunk size 1).  So exactly one thread is
 * between gates at any time, and which thread computes which iteration in which order is a pure
 * function of (seed, policies, team size, iteration count).   See DESIGN.md 3.5 / appendix A.2.
 */
#define _GNU_SOURCE
#include <dlfcn.h>
#include <omp.h>
#include <pthread.h>
#include <stdbool.h>
#include <stdint.h>
#include <stdio.h>
#include <stdlib.h>
#include <string.h>

#define MAXT 256

typedef bool (*start_fn)(long, long, long, long, long *, long *);
typedef bool (*next_fn)(long *, long *);
typedef void (*void_fn)(void);
typedef void (*parallel_fn)(void (*)(void *), void *, unsigned, unsigned);

static start_fn real_start;
static next_fn real_next;
static void_fn real_end_nowait;
static parallel_fn real_parallel;

static void resolve(void) {
	if (!real_start) real_start = (start_fn)dlsym(RTLD_NEXT, "GOMP_loop_nonmonotonic_dynamic_start");
	if (!real_next) real_next = (next_fn)dlsym(RTLD_NEXT, "GOMP_loop_nonmonotonic_dynamic_next");
	if (!real_end_nowait) real_end_nowait = (void_fn)dlsym(RTLD_NEXT, "GOMP_loop_end_nowait");
	if (!real_parallel) real_parallel = (parallel_fn)dlsym(RTLD_NEXT, "GOMP_parallel");
}

static volatile int armed = 0;
static uint64_t rng;
static int thread_policy; /* 0 uniform, 1 lowest id hogs, 2 highest id hogs, 3 round robin, 4 thread 0 starved */
static int order_policy;  /* 0 ascending, 1 descending, 2 seeded permutation */

static pthread_mutex_t mu = PTHREAD_MUTEX_INITIALIZER;
static pthread_cond_t cv = PTHREAD_COND_INITIALIZER;

/* per-region state */
static int region_open = 0;    /* iteration list initialised for the current region */
static int team = 0;
static int in_loop = 0;        /* threads that have not yet been told "no more work" */
static int gated[MAXT];
static int n_gated = 0;
static int baton = -1;         /* thread allowed to leave the gate */
static int running = 0;        /* a thread is between gates */
static long *iters = NULL;
static long n_iters = 0, next_pos = 0, loop_incr = 1;
static int last_tid = -1;
static int executed[MAXT];

/* statistics & trace */
static long st_regions = 0, st_iterations = 0, st_multi_regions = 0;
static int st_max_team = 0, st_max_executing = 0;
static uint64_t sig = 1469598103934665603ULL;
#define TRACE_CAP 4096
static long tr_region[TRACE_CAP], tr_iter[TRACE_CAP];
static int tr_tid[TRACE_CAP];
static long tr_n = 0;

static uint64_t splitmix(void) {
	uint64_t z = (rng += 0x9E3779B97F4A7C15ULL);
	z = (z ^ (z >> 30)) * 0xBF58476D1CE4E5B9ULL;
	z = (z ^ (z >> 27)) * 0x94D049BB133111EBULL;
	return z ^ (z >> 31);
}

static void sig_mix(uint64_t v) {
	for (int i = 0; i < 8; i++) {
		sig ^= (v >> (8 * i)) & 0xff;
		sig *= 1099511628211ULL;
	}
}

static void finish_region_stats(void) {
	int ex = 0;
	for (int t = 0; t < MAXT; t++) if (executed[t]) ex++;
	if (ex >= 2) st_multi_regions++;
	if (ex > st_max_executing) st_max_executing = ex;
}

/* call with mu held, when n_gated == in_loop > 0 and nobody is running */
static void pick(void) {
	int cands[MAXT], nc = 0;
	for (int t = 0; t < team && t < MAXT; t++) if (gated[t]) cands[nc++] = t;
	if (nc == 0) return;
	int choice;
	switch (thread_policy) {
	case 1: choice = cands[0]; break;
	case 2: choice = cands[nc - 1]; break;
	case 3: {
		choice = cands[0];
		for (int i = 0; i < nc; i++) if (cands[i] > last_tid) { choice = cands[i]; break; }
		break;
	}
	case 4: {
		int nz[MAXT], nn = 0;
		for (int i = 0; i < nc; i++) if (cands[i] != 0) nz[nn++] = cands[i];
		if (nn > 0 && next_pos < n_iters) choice = nz[splitmix() % nn];
		else choice = cands[splitmix() % nc];
		break;
	}
	default: choice = cands[splitmix() % nc];
	}
	last_tid = choice;
	baton = choice;
	running = 1;
	pthread_cond_broadcast(&cv);
}

static bool gate(long *istart, long *iend) {
	int tid = omp_get_thread_num();
	if (tid >= MAXT) abort();
	pthread_mutex_lock(&mu);
	gated[tid] = 1;
	n_gated++;
	if (!running && n_gated == in_loop) pick();
	while (baton != tid) pthread_cond_wait(&cv, &mu);
	baton = -1;
	gated[tid] = 0;
	n_gated--;
	bool got;
	if (next_pos < n_iters) {
		long it = iters[next_pos++];
		*istart = it;
		*iend = it + loop_incr;
		executed[tid] = 1;
		st_iterations++;
		sig_mix((uint64_t)st_regions); sig_mix((uint64_t)it); sig_mix((uint64_t)tid);
		if (tr_n < TRACE_CAP) { tr_region[tr_n] = st_regions; tr_iter[tr_n] = it; tr_tid[tr_n] = tid; }
		tr_n++;
		got = true; /* stays "running" until it comes back to the gate */
	} else {
		in_loop--;
		running = 0;
		got = false;
		if (in_loop == 0) { finish_region_stats(); region_open = 0; }
		else if (n_gated == in_loop) pick();
	}
	pthread_mutex_unlock(&mu);
	return got;
}

bool GOMP_loop_nonmonotonic_dynamic_start(long start, long end, long incr, long chunk, long *istart, long *iend) {
	resolve();
	if (!armed) return real_start(start, end, incr, chunk, istart, iend);
	pthread_mutex_lock(&mu);
	if (!region_open) {
		region_open = 1;
		st_regions++;
		team = omp_get_num_threads();
		if (team > MAXT) abort();
		if (team > st_max_team) st_max_team = team;
		in_loop = team;
		n_gated = 0;
		running = 0;
		baton = -1;
		last_tid = -1;
		memset(gated, 0, sizeof gated);
		memset(executed, 0, sizeof executed);
		loop_incr = incr;
		long n = 0;
		if (incr > 0 && end > start) n = (end - start + incr - 1) / incr;
		else if (incr < 0 && end < start) n = (start - end - incr - 1) / (-incr);
		free(iters);
		iters = (long *)malloc(sizeof(long) * (n > 0 ? n : 1));
		n_iters = n;
		next_pos = 0;
		for (long i = 0; i < n; i++) iters[i] = start + i * incr;
		if (order_policy == 1) {
			for (long i = 0; i < n / 2; i++) { long t = iters[i]; iters[i] = iters[n - 1 - i]; iters[n - 1 - i] = t; }
		} else if (order_policy == 2) {
			for (long i = n - 1; i > 0; i--) { long j = (long)(splitmix() % (uint64_t)(i + 1)); long t = iters[i]; iters[i] = iters[j]; iters[j] = t; }
		}
	}
	pthread_mutex_unlock(&mu);
	return gate(istart, iend);
}

bool GOMP_loop_nonmonotonic_dynamic_next(long *istart, long *iend) {
	resolve();
	if (!armed) return real_next(istart, iend);
	pthread_mutex_lock(&mu);
	running = 0; /* the caller finished its iteration body and is back at the gate */
	pthread_mutex_unlock(&mu);
	return gate(istart, iend);
}

void GOMP_loop_end_nowait(void) {
	resolve();
	if (!armed) real_end_nowait();
	/* shim-served loops own no libgomp work share: nothing to release */
}

void GOMP_parallel(void (*fn)(void *), void *data, unsigned num_threads, unsigned flags) {
	resolve();
	if (armed) {
		pthread_mutex_lock(&mu);
		region_open = 0;
		pthread_mutex_unlock(&mu);
	}
	real_parallel(fn, data, num_threads, flags);
}

/* ---- control interface (ctypes) ---- */
void gompsim_arm(uint64_t seed, int tpol, int opol) {
	pthread_mutex_lock(&mu);
	rng = seed * 0x2545F4914F6CDD1DULL + 0x1234567ULL;
	thread_policy = tpol;
	order_policy = opol;
	region_open = 0;
	st_regions = st_iterations = st_multi_regions = 0;
	st_max_team = st_max_executing = 0;
	sig = 1469598103934665603ULL;
	tr_n = 0;
	armed = 1;
	pthread_mutex_unlock(&mu);
}

void gompsim_disarm(void) {
	pthread_mutex_lock(&mu);
	armed = 0;
	pthread_mutex_unlock(&mu);
}

int gompsim_is_armed(void) { return armed; }
uint64_t gompsim_signature(void) { return sig; }

void gompsim_stats(long *out /* regions, iterations, multi-thread regions, max team, max executing */) {
	out[0] = st_regions; out[1] = st_iterations; out[2] = st_multi_regions; out[3] = st_max_team; out[4] = st_max_executing;
}

long gompsim_trace(long *region, long *iter, int *tid, long cap) {
	long n = tr_n < TRACE_CAP ? tr_n : TRACE_CAP;
	if (n > cap) n = cap;
	for (long i = 0; i < n; i++) { region[i] = tr_region[i]; iter[i] = tr_iter[i]; tid[i] = tr_tid[i]; }
	return tr_n;
}
